"""Scratch directories under /dev/shm (fallback $TMPDIR), removed on exit."""
import atexit
import os
import shutil
import tempfile

_root = None
_owner = None


def root():
    global _root, _owner
    if _root is None or _owner != os.getpid():
        base = "/dev/shm" if os.path.isdir("/dev/shm") and os.access("/dev/shm", os.W_OK) else tempfile.gettempdir()
        parent = os.environ.get("VMC_SCRATCH_PARENT")
        if parent and os.path.isdir(parent):
            base = parent
        _root = tempfile.mkdtemp(prefix="vmc-", dir=base)
        _owner = os.getpid()
        atexit.register(_cleanup, _root, _owner)
    return _root


def _cleanup(path, owner):
    if os.getpid() == owner:
        shutil.rmtree(path, ignore_errors=True)


def sub(name):
    p = os.path.join(root(), name)
    os.makedirs(p, exist_ok=True)
    return p


_ctr = [0]


def fresh(suffix=".cool"):
    _ctr[0] += 1
    return os.path.join(root(), f"f{os.getpid()}_{_ctr[0]}{suffix}")


def rm(*paths):
    for p in paths:
        try:
            if os.path.isdir(p):
                shutil.rmtree(p, ignore_errors=True)
            else:
                os.remove(p)
        except OSError:
            pass
