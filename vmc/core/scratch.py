"""Scratch directories under /dev/shm (fallback $TMPDIR), removed on exit."""
import atexit
import os
import shutil
import tempfile

_root = None
_owner = None


def root():
    global _root, _owner
    if _root is None or _owner != os.getpid():
        base = "/dev/shm" if os.path.isdir("/dev/shm") and os.access("/dev/shm", os.W_OK) else tempfile.gettempdir()
        parent = os.environ.get("VMC_SCRATCH_PARENT")
        if parent and os.path.isdir(parent):
            base = parent
        _root = tempfile.mkdtemp(prefix="vmc-", dir=base)
        _owner = os.getpid()
        atexit.register(_cleanup, _root, _owner)
    return _root


def _cleanup(path, owner):
    if os.getpid() == owner:
        shutil.rmtree(path, ignore_errors=True)


def sub(name):
    p = os.path.join(root(), name)
    os.makedirs(p, exist_ok=True)
    return p


_ctr = [0]
_free = {}      # suffix -> names handed out by fresh() and given back by rm()


def fresh(suffix=".cool"):
    """A scratch file name. Names are deliberately RE-USED: a name given back through rm() is handed out again, so that consecutive
    cases of a worker write different contents to the same path - state keyed by file name that leaks between calls of the
    implementation (a stale module-level cache, a leftover of the previous collection) then shows up as a mismatch instead of being
    hidden by ever-fresh names."""
    pool = _free.get((os.getpid(), suffix))
    if pool:
        return pool.pop()
    _ctr[0] += 1
    return os.path.join(root(), f"f{os.getpid()}_{_ctr[0]}{suffix}")


def rm(*paths):
    for p in paths:
        try:
            if os.path.isdir(p):
                shutil.rmtree(p, ignore_errors=True)
            else:
                os.remove(p)
        except OSError:
            pass
        base = os.path.basename(p)
        if base.startswith(f"f{os.getpid()}_") and os.path.dirname(p) == root():
            suffix = base[base.index("."):] if "." in base else ""
            pool = _free.setdefault((os.getpid(), suffix), [])
            if p not in pool:
                pool.append(p)
