"""Legs that drive INTERNAL (non-public) entry points of cooler directly - the index builders, the range-query engine, the
region-to-extent helpers - first make the smallest valid call exactly the way the leg makes its calls. If that call cannot even be
made (ImportError / AttributeError / TypeError: the internal interface was refactored, which is no violation of any property) the leg
is SKIPPED and recorded as a cap in the evidence ('exhaustive' becomes false); the API-level legs of the same check, which only use
the public interface, still decide the property. A behavioural defect never looks like this: the probe is the simplest valid input."""
from __future__ import annotations

_state = {}


def internal_ok(R, key, probe):
    if key not in _state:
        try:
            probe()
            _state[key] = None
        except (ImportError, AttributeError, TypeError) as e:
            _state[key] = f"internal interface changed: leg '{key}' skipped ({type(e).__name__}: {e!s:.120}); the public-interface legs decide"
        except Exception:
            _state[key] = None        # anything else is for the leg's own oracle to judge
    if _state[key] is not None:
        R.cap(_state[key])
        return False
    return True
