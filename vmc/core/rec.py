"""Recorder: mergeable accumulator of what a run covered and what mismatched."""
from __future__ import annotations

import collections
import hashlib
import json

MAX_KEEP_PER_SIG = 6      # mismatches kept per (clause, finding) signature and worker batch
MAX_SAMPLES = 4


class HarnessError(Exception):
    """The harness itself cannot run (missing seam, bad environment): exit 2, never a VIOLATION."""


def jsonable(x):
    import numpy as np
    if isinstance(x, dict):
        return {str(k): jsonable(v) for k, v in x.items()}
    if isinstance(x, (list, tuple, set, frozenset)):
        return [jsonable(v) for v in x]
    if isinstance(x, np.generic):
        return x.item()
    if isinstance(x, np.ndarray):
        return x.tolist()
    if isinstance(x, float) and x != x:
        return "NaN"
    if isinstance(x, (str, int, float, bool)) or x is None:
        return x
    return repr(x)


class Rec:
    def __init__(self):
        self.c = collections.Counter()          # evaluations, nontrivial, states, transitions, traces, ...
        self.classes = collections.Counter()    # per-class counts ("window:nested", ...)
        self.times = collections.Counter()      # wall ms per leg (not part of the digest)
        self.outcomes = set()                   # digests of distinct observed outcomes (bounded)
        self.mismatches = []                    # dicts: order, clause, case, detail, finding
        self.mcount = collections.Counter()     # (clause, finding) -> count
        self.samples = []
        self.caps = []                          # caps hit (strings)
        self.order = (0, 0)                     # (unit index, inner index) of the case being run
        self.only = None
        self.unit = None
        self.classify = None

    # ---- counting --------------------------------------------------------------------------
    def ev(self, n=1, nontrivial=0):
        self.c["evaluations"] += n
        self.c["nontrivial"] += nontrivial

    def add(self, key, n=1):
        self.c[key] += n

    def cls(self, name, n=1):
        self.classes[name] += n

    def outcome(self, obj):
        if len(self.outcomes) < 20000:
            self.outcomes.add(hashlib.md5(repr(obj).encode()).hexdigest()[:12])

    def sample(self, case):
        if len(self.samples) < MAX_SAMPLES:
            self.samples.append(jsonable(case))

    def cap(self, text):
        if text not in self.caps:
            self.caps.append(text)

    # ---- mismatches ------------------------------------------------------------------------
    def mismatch(self, clause, inner, detail=""):
        """clause: oracle clause that failed; inner: JSON-able description of the inner case
        (None = the whole unit); detail: what was observed vs expected."""
        m = {
            "order": list(self.order),
            "clause": clause,
            "case": {"unit": jsonable(self.unit), "inner": jsonable(inner)},
            "detail": str(detail)[:1500],
        }
        fid = None
        if self.classify is not None:
            try:
                fid = self.classify(m)
            except Exception as e:  # a classifier must never hide a mismatch
                fid = None
                m["detail"] += f" [classify error {type(e).__name__}: {e}]"
        m["finding"] = fid
        sig = (clause, fid)
        self.mcount[sig] += 1
        if self.mcount[sig] <= MAX_KEEP_PER_SIG:
            self.mismatches.append(m)

    # ---- merging ---------------------------------------------------------------------------
    def merge(self, other: "Rec"):
        self.c.update(other.c)
        self.classes.update(other.classes)
        self.times.update(other.times)
        if len(self.outcomes) < 20000:
            self.outcomes |= other.outcomes
        self.mismatches.extend(other.mismatches)
        self.mcount.update(other.mcount)
        for s in other.samples:
            if len(self.samples) < MAX_SAMPLES:
                self.samples.append(s)
        for cp in other.caps:
            self.cap(cp)

    def digest(self):
        return hashlib.md5(
            json.dumps([sorted(self.c.items()), sorted(self.classes.items()), sorted(self.outcomes),
                        sorted((m["clause"], json.dumps(m["case"], sort_keys=True)) for m in self.mismatches)],
                       sort_keys=True).encode()).hexdigest()
