"""Reference model of what a set of HDF5 files holds, as far as cooler's file-level operations can observe it
(DESIGN §1.3 / §3 ref_fs).  A file is a graph of group objects; an object may hold a cooler (identified by the id of the
data set it was created from) and child references: hard (shared object), soft (path in the same file), external
(file, path).  No cooler import."""
from __future__ import annotations

import copy
import json


class Unspecified(Exception):
    """the operation has no defined meaning in this state (the alphabet excludes it / anything may happen)"""


class MustFail(Exception):
    """the operation must be refused (raise) and leave everything as it was"""


class FS:
    def __init__(self):
        self.files = {}      # name -> root oid
        self.objs = {}       # oid -> {"cooler": data_id|None, "children": {name: ref}, "foreign": bool}
        self._next = 0

    # ---- basics ----------------------------------------------------------------------------------
    def new_obj(self, cooler=None, foreign=False):
        oid = self._next
        self._next += 1
        self.objs[oid] = {"cooler": cooler, "children": {}, "foreign": foreign}
        return oid

    def clone(self):
        return copy.deepcopy(self)

    @staticmethod
    def parts(path):
        return [p for p in path.split("/") if p]

    def resolve(self, fname, path, follow=True, depth=0):
        """-> (file, oid) or None"""
        if fname not in self.files or depth > 8:
            return None
        cur_f, cur = fname, self.files[fname]
        for name in self.parts(path):
            ref = self.objs[cur]["children"].get(name)
            if ref is None:
                return None
            r = self.deref(cur_f, ref, depth + 1)
            if r is None:
                return None
            cur_f, cur = r
        return cur_f, cur

    def deref(self, fname, ref, depth=0):
        if ref[0] == "hard":
            return fname, ref[1]
        if ref[0] == "soft":
            return self.resolve(fname, ref[1], depth=depth + 1)
        if ref[0] == "ext":
            return self.resolve(ref[1], ref[2], depth=depth + 1)
        return None

    def parent_of(self, fname, path):
        ps = self.parts(path)
        if not ps:
            return None
        par = self.resolve(fname, "/" + "/".join(ps[:-1]))
        if par is None:
            return None
        return par[1], ps[-1]

    def exists(self, fname, path):
        """is there a link at this path (even a dangling one)?"""
        if fname not in self.files:
            return False
        if not self.parts(path):
            return True
        po = self.parent_of(fname, path)
        return po is not None and po[1] in self.objs[po[0]]["children"]

    def ensure_groups(self, fname, path):
        """create intermediate groups (as h5py does); -> (parent oid, last name)"""
        cur = self.files[fname]
        ps = self.parts(path)
        for name in ps[:-1]:
            ch = self.objs[cur]["children"]
            if name not in ch:
                ch[name] = ("hard", self.new_obj())
            if ch[name][0] != "hard":
                raise Unspecified("destination path goes THROUGH a soft or external link")
            r = self.deref(fname, ch[name])
            if r is None or r[0] != fname:
                raise Unspecified("intermediate path goes through a dangling or external link")
            cur = r[1]
        return cur, ps[-1]

    def deep_copy_obj(self, fname, oid, memo=None):
        """HDF5 object copy: hard-linked children are copied (shared objects are duplicated once per copy), soft and
        external links are copied as links"""
        memo = {} if memo is None else memo
        if oid in memo:
            return memo[oid]
        src = self.objs[oid]
        new = self.new_obj(cooler=src["cooler"], foreign=src["foreign"])
        memo[oid] = new
        for name, ref in src["children"].items():
            if ref[0] == "hard":
                self.objs[new]["children"][name] = ("hard", self.deep_copy_obj(fname, ref[1], memo))
            else:
                self.objs[new]["children"][name] = ref
        return new

    def subtree_paths(self, path):
        p = "/" + "/".join(self.parts(path))
        return p

    @staticmethod
    def inside(path, anc):
        a, p = FS.parts(anc), FS.parts(path)
        return p[:len(a)] == a

    # ---- observations ----------------------------------------------------------------------------
    def listing(self, fname, by_link_name=True):
        """{path: data_id} of every collection reachable in the file, named by the path used to reach it"""
        out = {}
        if fname not in self.files:
            return out

        def walk(f, oid, path, depth):
            if depth > 8:
                return
            o = self.objs[oid]
            if o["cooler"] is not None:
                out[path or "/"] = o["cooler"]
            for name in sorted(o["children"]):
                r = self.deref(f, o["children"][name])
                if r is None:
                    out.setdefault("__dangling__", []).append(path + "/" + name)
                    continue
                walk(r[0], r[1], path + "/" + name, depth + 1)
        walk(fname, self.files[fname], "", 0)
        return out

    def has_external(self, fname):
        def walk(oid, seen):
            if oid in seen:
                return False
            seen.add(oid)
            for ref in self.objs[oid]["children"].values():
                if ref[0] == "ext":
                    return True
                if ref[0] == "hard" and walk(ref[1], seen):
                    return True
            return False
        return fname in self.files and walk(self.files[fname], set())

    def contains_links(self, oid, seen=None):
        seen = set() if seen is None else seen
        if oid in seen:
            return False
        seen.add(oid)
        for ref in self.objs[oid]["children"].values():
            if ref[0] != "hard" or self.contains_links(ref[1], seen):
                return True
        return False

    def canon(self):
        def ser(f, oid, seen):
            if oid in seen:
                return ["shared", seen[oid]]
            seen[oid] = len(seen)
            o = self.objs[oid]
            return [o["cooler"], o["foreign"], [[n, (ser(f, r[1], seen) if r[0] == "hard" else list(r))] for n, r in sorted(o["children"].items())]]
        return json.dumps({f: ser(f, r, {}) for f, r in sorted(self.files.items())}, sort_keys=True)

    # ---- operations (documented semantics) ---------------------------------------------------------
    def op_create(self, fname, path, data, mode):
        if mode == "w" or fname not in self.files:
            self.files[fname] = self.new_obj()
        if not self.parts(path):
            root = self.objs[self.files[fname]]
            root["cooler"] = data
            return
        par, name = self.ensure_groups(fname, path)
        self.objs[par]["children"][name] = ("hard", self.new_obj(cooler=data))     # occupied path: replaced completely

    def reachable(self, fname, oid, acc=None):
        """all (file, oid) reachable from an object through hard, soft and external links"""
        acc = set() if acc is None else acc
        if (fname, oid) in acc:
            return acc
        acc.add((fname, oid))
        for ref in self.objs[oid]["children"].values():
            r = self.deref(fname, ref)
            if r is not None:
                self.reachable(r[0], r[1], acc)
        return acc

    def _check_src_dst(self, sf, sp, df, dp, need_dst_free=True, overwrite=False):
        if sf == df and (self.inside(dp, sp) or self.inside(sp, dp)) and self.parts(sp) != self.parts(dp):
            raise Unspecified("destination inside the source's own subtree (or the reverse)")
        if sf == df and self.parts(sp) == self.parts(dp):
            raise Unspecified("source == destination")
        s = self.resolve(sf, sp)
        if s is not None and df in self.files:
            # the same exclusion at OBJECT level: the destination's existing ancestors must not lie inside the source object
            # (reached through an alias: a hard or soft link), or the result is a cycle
            cur_f, cur = df, self.files[df]
            inside = self.reachable(s[0], s[1])
            for name in self.parts(dp)[:-1]:
                ref = self.objs[cur]["children"].get(name)
                r = self.deref(cur_f, ref) if ref is not None else None
                if r is None:
                    break
                cur_f, cur = r
                if (cur_f, cur) in inside:
                    raise Unspecified("destination lies inside the source object (reached through a link)")
            if (df, self.files[df]) in inside and self.parts(dp):
                raise Unspecified("destination file's root is reachable from the source")
        if s is None:
            if overwrite:
                raise Unspecified("overwrite requested with a missing source")
            raise MustFail("source does not exist")
        if need_dst_free and df in self.files and self.exists(df, dp):
            root = self.objs[self.files[df]]
            free_root = (not self.parts(dp) and sf != df and root.get("cooler") is None
                         and not (set(root["children"]) & set(self.objs[s[1]]["children"])))
            if not free_root:
                # (a cross-file copy INTO the root of an existing file is defined when that root holds no collection and none of the
                # source's members clashes with a member of the root: the members are copied in, the attributes are taken over)
                raise Unspecified("destination path is occupied")
        return s

    def op_cp(self, sf, sp, df, dp, overwrite=False):
        s = self._check_src_dst(sf, sp, df, dp, need_dst_free=not overwrite, overwrite=overwrite)
        if overwrite:
            if sf == df:
                raise Unspecified("overwrite within one file")
            self.files[df] = self.new_obj()
        elif df not in self.files:
            self.files[df] = self.new_obj()
        if s[0] != sf:
            raise Unspecified("source reached through an external link")
        if self.contains_links(s[1]):
            raise Unspecified("copying a subtree that CONTAINS soft/external links (absolute link paths change meaning at the new place)")
        new = self.deep_copy_obj(sf, s[1])
        if not self.parts(dp):
            # copy INTO the root of a fresh file: every child is copied BY PATH (h5py dereferences soft/external links when an
            # object is copied by its path), the attributes of the source become the root's
            root = self.objs[self.files[df]]
            root["cooler"] = self.objs[new]["cooler"]
            for name, ref in self.objs[s[1]]["children"].items():
                if ref[0] == "hard":
                    root["children"][name] = self.objs[new]["children"][name]
                else:
                    r = self.deref(sf, ref)
                    if r is None:
                        raise Unspecified("copying a dangling link by path")
                    root["children"][name] = ("hard", self.deep_copy_obj(r[0], r[1]))
            return
        par, name = self.ensure_groups(df, dp)
        self.objs[par]["children"][name] = ("hard", new)

    def op_mv(self, f, sp, dp):
        if not self.parts(sp) or not self.parts(dp):
            raise Unspecified("moving the root group / onto the root group")
        s = self._check_src_dst(f, sp, f, dp)
        if s[0] != f:
            raise Unspecified("moving an object that lives in another file")
        po = self.parent_of(f, sp)
        par, name = self.ensure_groups(f, dp)
        # h5py: src[dst] = src[src_group] makes a HARD link to the resolved object, then the source link is removed
        self.objs[par]["children"][name] = ("hard", s[1])
        del self.objs[po[0]]["children"][po[1]]

    def op_ln(self, sf, sp, df, dp, soft):
        if not self.parts(dp):
            raise Unspecified("link named like the root group")
        if not soft:
            if sf != df:
                raise Unspecified("hard link across files")
            if not self.parts(sp):
                raise Unspecified("hard link to the root group")
            s = self._check_src_dst(sf, sp, df, dp)
            if s[0] != sf:
                raise Unspecified("hard link to an object of another file")
            par, name = self.ensure_groups(df, dp)
            self.objs[par]["children"][name] = ("hard", s[1])
            return
        try:
            s = self._check_src_dst(sf, sp, df, dp)
        except MustFail:
            raise Unspecified("soft/external link to a target that does not exist (a dangling link is legal HDF5)") from None
        if not self.parts(sp) and sf == df:
            raise Unspecified("soft link to the root of the same file (cycle)")
        if df not in self.files:
            self.files[df] = self.new_obj()
        par, name = self.ensure_groups(df, dp)
        self.objs[par]["children"][name] = ("soft", "/" + "/".join(self.parts(sp))) if sf == df else ("ext", sf, "/" + "/".join(self.parts(sp)))
