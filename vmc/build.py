"""Harness-side helpers that drive the implementation (the only place besides the checks that
imports cooler)."""
from __future__ import annotations

import io
import contextlib

import numpy as np
import pandas as pd

from vmc import alpha


def bins_df(bins, extra=None):
    """bins: list of (chrom, start, end) -> DataFrame (chrom as ordered categorical in table order)"""
    names = []
    for c, _, _ in bins:
        if c not in names:
            names.append(c)
    df = pd.DataFrame({
        "chrom": pd.Categorical([b[0] for b in bins], categories=names, ordered=True),
        "start": np.array([b[1] for b in bins], dtype=np.int64),
        "end": np.array([b[2] for b in bins], dtype=np.int64),
    })
    if extra:
        for k, v in extra.items():
            df[k] = v
    return df


def pix_df(pix, cols=("count",), dtypes=None):
    """pix: dict (i,j)->value or ->dict(col->value); sorted by (i,j)"""
    keys = sorted(pix)
    d = {"bin1_id": np.array([k[0] for k in keys], dtype=np.int64),
         "bin2_id": np.array([k[1] for k in keys], dtype=np.int64)}
    for c in cols:
        vals = [(pix[k][c] if isinstance(pix[k], dict) else pix[k]) for k in keys]
        dt = (dtypes or {}).get(c)
        d[c] = np.array(vals, dtype=dt) if dt else np.array(vals) if vals else np.array([], dtype=np.int64)
    return pd.DataFrame(d)


def pattern_pix(n, cells):
    return {(i, j): alpha.value(n, i, j) for (i, j) in cells}


def dense(n, pix, symm):
    M = np.zeros((n, n), dtype=np.int64)
    for (i, j), v in pix.items():
        M[i, j] = v
        if symm and i != j:
            M[j, i] = v
    return M


def create(uri, bins, pix, symm=True, cols=("count",), dtypes=None, **kw):
    import cooler
    kw.setdefault("ordered", True)
    bdf = bins if isinstance(bins, pd.DataFrame) else bins_df(bins)
    pdf = pix if isinstance(pix, (pd.DataFrame,)) or not isinstance(pix, dict) else pix_df(pix, cols, dtypes)
    cooler.create_cooler(uri, bdf, pdf, symmetric_upper=symm,
                         columns=list(cols) if tuple(cols) != ("count",) else None,
                         dtypes=dtypes, **kw)


def cli(args):
    """run the cooler CLI in-process; -> (exit_code, stdout, exception)"""
    from cooler.cli import cli as _cli
    buf = io.StringIO()
    err = io.StringIO()
    exc = None
    code = 0
    with contextlib.redirect_stdout(buf), contextlib.redirect_stderr(err):
        try:
            _cli.main(args=[str(a) for a in args], standalone_mode=False)
        except SystemExit as e:
            code = e.code if isinstance(e.code, int) else (0 if e.code is None else 1)
        except BaseException as e:  # click exceptions, library errors
            exc = e
            code = 1
    return code, buf.getvalue(), exc
