"""C04 — genomic ranges select exactly the covering bins (E1)."""
from __future__ import annotations

import numpy as np
import pandas as pd

from vmc import alpha, build, models
from vmc.core import scratch, seamprobe

ID = "C04"
LEVEL = "model_checking"
RULE = ("function leg: every bin table of BT(3,B,{1,2,3}) x 2 name flavours x every (chrom,start,end) with "
        "0<=start<=end<=length through get_binsize + region_to_extent/region_to_offset on a dict-backed group and through "
        "GenomeSegmentation.fetch / bedslice; api leg: real coolers on representative tables (one per class), every region "
        "through extent/offset/bins().fetch/pixels().fetch/matrix().fetch in 4 spellings, and every region PAIR through "
        "matrix().fetch(r1, r2) vs the index-slice query and the dense reference. Oracle: linear-scan cover. "
        "Non-trivial: start<end and the range is not the whole chromosome. Distinct by construction.")
EXTRA_LEGS = 'manybins: variable-width chromosomes of 9000 and 4200 bins, ranges starting / ending on bin edges around the powers of two, the eighths and the ends; binsizes: every fixed bin size 1..512 (thorough 4096) x ranges starting / ending on and next to every edge of 41 bins against integer arithmetic; function legs are skipped (cap) if the internal helpers were refactored.'
BOUNDS = {"quick": "function: BT(3,4,W) = 696 tables x 2 flavours; api: BTrep(3,4) tables, pairs when genome <= 7 bp + binsizes: every fixed bin size 1..512 x ranges starting/ending on and next to every edge of 41 bins (function level, integer-arithmetic reference)",
          "thorough": "function: BT(3,5,W) = 3369 tables x 2 flavours; api: BTrep(3,5) tables, pairs when genome <= 9 bp + binsizes: every fixed bin size 1..4096 x ranges starting/ending on and next to every edge of 41 bins (function level, integer-arithmetic reference)"}
ASSUMPTIONS = ["an empty range (start == end) may select no bin or the one bin whose closed interval contains the position",
               "bin tables are valid (contiguous from 0 per chromosome); widths 1..3 bp so every coordinate is enumerated"]
EXPECT_CLASSES = {"*": ["tclass:uni>", "tclass:uni<", "tclass:var", "tclass:one", "range:empty", "range:whole", "range:inner"]}


def units(tier):
    th = tier == "thorough"
    B = 5 if th else 4
    tabs = alpha.bin_tables(3, B)
    for lo in range(0, len(tabs), 24):
        yield {"leg": "func", "B": B, "lo": lo, "hi": min(len(tabs), lo + 24)}
    rep = alpha.bt_rep(3, B)
    for k in range(len(rep)):
        yield {"leg": "api", "B": B, "k": k}
    yield {"leg": "large"}
    # chromosomes with thousands of variable-width bins (beyond any block size a lookup might search in): every range that ends
    # or starts on a bin edge near the powers of two, the quarters and the ends of the chromosome
    yield {"leg": "manybins"}
    # every fixed bin size 1..512 (thorough 4096) on a chromosome of 41 bins behind a 3-bin one: ranges that start / end on, one
    # before and one after every bin edge - the floor / ceil arithmetic must be exact at every multiple of every bin size
    top = 4096 if th else 512
    for lo in range(1, top + 1, 32):
        yield {"leg": "binsizes", "lo": lo, "hi": min(top + 1, lo + 32)}


def _regions(bins):
    sizes = models.ref_chromsizes(bins)
    for c, L in sizes.items():
        for s in range(L + 1):
            for e in range(s, L + 1):
                yield c, s, e, L


def _judge(bins, c, s, e, lo, hi):
    """-> None if (lo, hi) is an admissible extent for [s, e) on chromosome c"""
    if s < e:
        cov = models.ref_cover(bins, c, s, e)
        want = (cov[0], cov[-1] + 1)
        if (lo, hi) != want:
            return f"extent=({lo},{hi}) want={want}"
        return None
    if lo == hi:
        first = [k for k, b in enumerate(bins) if b[0] == c]
        if not (first[0] <= lo <= first[-1] + 1):
            return f"empty extent ({lo},{hi}) lies outside chromosome {c}"
        return None
    if hi == lo + 1 and 0 <= lo < len(bins) and bins[lo][0] == c and bins[lo][1] <= s <= bins[lo][2]:
        return None
    return f"empty range selected ({lo},{hi})"


def _func_probe():
    """smallest valid use of the internal region helpers, made the way the function legs make their calls"""
    from cooler import util
    from cooler.core import region_to_extent, region_to_offset
    grp = {"indexes": {"chrom_offset": np.array([0, 1])}, "bins": {"start": np.array([0]), "end": np.array([2]), "chrom": np.array([0])},
           "chroms": {"length": np.array([2])}}
    region_to_extent(grp, {"a": 0}, ("a", 0, 2), 2)
    region_to_extent(grp, {"a": 0}, ("a", 0, 2), None)
    region_to_offset(grp, {"a": 0}, ("a", 0, 2), 2)
    df = build.bins_df([("a", 0, 2)])
    cs = pd.Series([2], index=["a"])
    util.GenomeSegmentation(cs, df).fetch(("a", 0, 2))
    util.bedslice(df.groupby("chrom", observed=True, sort=False), cs, ("a", 0, 2))


def _func_table(R, table, flavour, only):
    if not seamprobe.internal_ok(R, "C04:function", _func_probe):
        return
    from cooler import util
    from cooler.core import region_to_extent, region_to_offset
    bins = alpha.table_bins(table, flavour)
    names = alpha.NAMES[flavour][:len(table)]
    df = build.bins_df(bins)
    b = util.get_binsize(df)
    b = None if b is None else int(b)
    coff = np.array(models.ref_indptr([names.index(x[0]) for x in bins], len(names)), dtype=np.int64)
    grp = {"indexes": {"chrom_offset": coff}, "bins": {"start": np.array([x[1] for x in bins], dtype=np.int64), "end": np.array([x[2] for x in bins], dtype=np.int64),
                    "chrom": np.array([names.index(x[0]) for x in bins], dtype=np.int32)},
           "chroms": {"length": np.array([max(x[2] for x in bins if x[0] == nm) for nm in names], dtype=np.int64)}}
    ids = {nm: k for k, nm in enumerate(names)}
    sizes = models.ref_chromsizes(bins)
    cs = pd.Series([sizes[nm] for nm in names], index=names)
    gs = util.GenomeSegmentation(cs, df)
    grouped = df.groupby("chrom", observed=True, sort=False)
    R.add("states")
    R.add("traces")
    for ch in table:
        R.cls("tclass:" + alpha.chrom_class(ch))
    k = 0
    for c, s, e, L in _regions(bins):
        k += 1
        inner = {"table": [list(x) for x in table], "names": flavour, "region": [c, s, e]}
        if only is not None and only != inner:
            continue
        R.order = (R.order[0], k)
        nt = s < e and (s, e) != (0, L)
        R.c["evaluations"] += 1
        R.c["nontrivial"] += nt
        R.c["transitions"] += 4
        R.classes["range:" + ("empty" if s == e else "whole" if (s, e) == (0, L) else "inner")] += 1
        try:
            lo, hi = region_to_extent(grp, ids, (c, s, e), b)
            lo, hi = int(lo), int(hi)
            msg = _judge(bins, c, s, e, lo, hi)
            if msg:
                R.mismatch("extent!=cover", inner, msg + f" binsize={b} bins={bins}")
            off = int(region_to_offset(grp, ids, (c, s, e), b))
            if off != lo:
                R.mismatch("offset!=extent[0]", inner, f"offset={off} extent=({lo},{hi})")
            for nm, res in (("GenomeSegmentation.fetch", gs.fetch((c, s, e))), ("bedslice", util.bedslice(grouped, cs, (c, s, e)))):
                got = list(res.index)
                if s < e:
                    if got != models.ref_cover(bins, c, s, e):
                        R.mismatch(nm + "!=cover", inner, f"got={got} want={models.ref_cover(bins, c, s, e)} bins={bins}")
                else:
                    if len(got) > 1 or (got and not (bins[got[0]][0] == c and bins[got[0]][1] <= s <= bins[got[0]][2])):
                        R.mismatch(nm + ":empty-range", inner, f"got={got}")
            R.outcome((lo - int(coff[ids[c]]), hi - lo))
        except Exception as ex:
            R.mismatch("raises:" + type(ex).__name__, inner, f"{ex!s:.200} bins={bins}")


def _spellings(c, s, e, L):
    yield "tuple", (c, s, e)
    yield "string", f"{c}:{s}-{e}"
    yield "commas", f"{c}:{s:,}-{e:,}"
    if e == L:
        yield "open", f"{c}:{s}-"
        yield "tuple-none", (c, s, None)
        if s == 0:
            yield "bare", c
            yield "tuple-none2", (c, None, None)


def _api_table(R, table, tier, only, tindex=0):
    import cooler
    flavour = "chr"
    bins = alpha.table_bins(table, flavour)
    n = len(bins)
    pix = build.pattern_pix(n, alpha.cells(n, True))
    keys = sorted(pix)
    M = build.dense(n, pix, True)
    total_bp = sum(sum(c) for c in table)
    pair_cap = 9 if tier == "thorough" else 7
    p = scratch.fresh()
    h5 = None
    try:
        # the store is given as a plain path, as a URI to a nested group, or as an open HDF5 handle, rotating over the tables
        kind = ("path", "uri", "handle")[tindex % 3]
        first_uri = p if kind == "path" else p + "::/deep/grp"
        build.create(first_uri, bins, pix, True)
        # a SECOND collection in the same file on a different table with the same chromosome names and bin counts (every
        # chromosome's widths reversed): queried alternately with the first one
        table2 = tuple(tuple(reversed(c)) for c in table)
        bins2 = alpha.table_bins(table2, flavour)
        if table2 != table:
            build.create(p + "::/second", bins2, {(0, 0): 1}, True, mode="a")
        if kind == "path":
            clr = cooler.Cooler(p)
        elif kind == "uri":
            clr = cooler.Cooler(p + "::deep/grp")
        else:
            import h5py
            h5 = h5py.File(p, "r")
            clr = cooler.Cooler(h5["/deep/grp"])
        second = cooler.Cooler(p + "::/second") if table2 != table else None
        R.cls("api-store:" + kind)
        R.add("states")
        R.add("traces")
        for ch in table:
            R.cls("api-tclass:" + alpha.chrom_class(ch))
        msel = clr.matrix(balance=False)
        regs = list(_regions(bins))
        exts = {}
        k = 0
        for c, s, e, L in regs:
            for sp_name, reg in _spellings(c, s, e, L):
                k += 1
                inner = {"table": [list(x) for x in table], "region": list(reg) if isinstance(reg, tuple) else reg, "sp": sp_name}
                if only is not None and only != inner:
                    continue
                R.order = (R.order[0], k)
                nt = s < e and (s, e) != (0, L)
                R.ev(1, 1 if nt else 0)
                R.add("transitions", 6)
                R.cls("api-spelling:" + sp_name)
                try:
                    if second is not None and sp_name == "tuple":
                        L2 = models.ref_chromsizes(bins2)[c]
                        s2, e2 = min(s, L2), min(e, L2)
                        l2, h2 = [int(x) for x in second.extent((c, s2, e2))]
                        msg2 = _judge(bins2, c, s2, e2, l2, h2)
                        if msg2:
                            R.mismatch("Cooler.extent!=cover(second-collection-of-the-file)", inner, msg2 + f" bins={bins2}")
                    lo, hi = clr.extent(reg)
                    lo, hi = int(lo), int(hi)
                    exts[(c, s, e)] = (lo, hi)
                    msg = _judge(bins, c, s, e, lo, hi)
                    if msg:
                        R.mismatch("Cooler.extent!=cover", inner, msg + f" bins={bins}")
                        continue
                    if int(clr.offset(reg)) != lo:
                        R.mismatch("Cooler.offset!=extent[0]", inner, f"offset={clr.offset(reg)} extent=({lo},{hi})")
                    bf = clr.bins().fetch(reg)
                    if list(bf.index) != list(range(lo, hi)) or \
                            list(zip(bf["chrom"].astype(str), bf["start"], bf["end"])) != [tuple(x) for x in bins[lo:hi]]:
                        R.mismatch("bins.fetch!=cover", inner, f"got index={list(bf.index)} want={list(range(lo, hi))}")
                    pf = clr.pixels().fetch(reg)
                    want = [(r, keys[r][0], keys[r][1], pix[keys[r]]) for r in range(len(keys)) if lo <= keys[r][0] < hi]
                    got = list(zip(pf.index.tolist(), pf["bin1_id"].tolist(), pf["bin2_id"].tolist(), pf["count"].tolist()))
                    if got != want:
                        R.mismatch("pixels.fetch!=rows-of-cover", inner, f"got={got} want={want}")
                    A = msel.fetch(reg)
                    if A.shape != (hi - lo, hi - lo) or not np.array_equal(A, M[lo:hi, lo:hi]):
                        R.mismatch("matrix.fetch(r)!=window", inner, f"got={A.tolist()} want={M[lo:hi, lo:hi].tolist()}")
                except Exception as ex:
                    R.mismatch("raises:" + type(ex).__name__, inner, f"{ex!s:.200} bins={bins}")
        if total_bp <= pair_cap:
            for (c1, s1, e1, _) in regs:
                for (c2, s2, e2, _) in regs:
                    k += 1
                    inner = {"table": [list(x) for x in table], "r1": [c1, s1, e1], "r2": [c2, s2, e2]}
                    if only is not None and only != inner:
                        continue
                    R.order = (R.order[0], k)
                    R.ev(1, 1 if (s1 < e1 and s2 < e2) else 0)
                    R.add("transitions", 2)
                    R.cls("api-pair")
                    try:
                        i0, i1 = exts.get((c1, s1, e1)) or [int(x) for x in clr.extent((c1, s1, e1))]
                        j0, j1 = exts.get((c2, s2, e2)) or [int(x) for x in clr.extent((c2, s2, e2))]
                        A = msel.fetch(f"{c1}:{s1}-{e1}", (c2, s2, e2))
                        Bm = msel[i0:i1, j0:j1]
                        if A.shape != Bm.shape or not np.array_equal(A, Bm):
                            R.mismatch("matrix.fetch(r1,r2)!=index-slice", inner, f"got={A.tolist()} slice={Bm.tolist()}")
                        if not np.array_equal(A, M[i0:i1, j0:j1]):
                            R.mismatch("matrix.fetch(r1,r2)!=reference-window", inner, f"got={A.tolist()} want={M[i0:i1, j0:j1].tolist()}")
                    except Exception as ex:
                        R.mismatch("raises:" + type(ex).__name__, inner, f"{ex!s:.200} bins={bins}")
        else:
            R.cls("api-pair-skipped(genome>%dbp)" % pair_cap)
    finally:
        if h5 is not None:
            h5.close()
        scratch.rm(p)


def _large(R, only):
    """coordinates at the edge of int32: fixed 1 Mb bins on chromosomes of 2**31-1 and 5,000,001 bp (and a variable-width variant);
    whole-chromosome, open-ended and explicit ranges at both ends"""
    import cooler
    R.add("states", 2)
    R.add("traces", 2)
    L = 2 ** 31 - 1
    for var in (False, True):
        sizes = [("chrS", 5000001), ("chrL", L)]
        bins = models.ref_binnify(sizes, 1000000)
        if var:   # merge the first two bins of each chromosome: a variable-width table with the same ends
            nb = []
            for c, _ in sizes:
                cb = [b for b in bins if b[0] == c]
                nb += [(c, 0, cb[1][2])] + cb[2:]
            bins = nb
        p = scratch.fresh()
        try:
            build.create(p, bins, {(0, 0): 1, (3, len(bins) - 1): 2}, True)
            clr = cooler.Cooler(p)
            kk = 0
            for c, Lc in sizes:
                regs = [(c, 0, Lc), (c, None, None), c, f"{c}:0-", f"{c}:{Lc - 1}-", (c, Lc - 1, None), (c, Lc - 1500000, None), f"{c}:{Lc - 1500000:,}-{Lc:,}",
                        (c, Lc - 1, Lc), (c, 1999999, 2000001), f"{c}:2M-3M", (c, Lc - 2, Lc - 1), (c, 0, 1)]
                for reg in regs:
                    kk += 1
                    inner = {"variable": var, "region": list(reg) if isinstance(reg, tuple) else reg}
                    if only is not None and only != inner:
                        continue
                    R.order = (R.order[0], kk)
                    R.ev(1, 1)
                    R.add("transitions", 2)
                    R.cls("large-coordinates")
                    if isinstance(reg, tuple):
                        s, e = reg[1], reg[2]
                    else:
                        _, s, e = models.ref_region_string(reg)
                    s = 0 if s is None else s
                    e = Lc if e is None else e
                    try:
                        lo, hi = [int(x) for x in clr.extent(reg)]
                        msg = _judge(bins, c, s, e, lo, hi)
                        if msg:
                            R.mismatch("Cooler.extent!=cover(large-coordinates)", inner, msg)
                            continue
                        bf = clr.bins().fetch(reg)
                        if list(bf.index) != list(range(lo, hi)):
                            R.mismatch("bins.fetch!=cover(large-coordinates)", inner, f"{list(bf.index)[:3]}..")
                    except Exception as ex:
                        R.mismatch("raises:" + type(ex).__name__, inner, f"{ex!s:.200}")
        finally:
            scratch.rm(p)


def _manybins(R, only):
    import cooler
    R.add("states")
    R.add("traces")
    widths = lambda k: 1 + (k * 7) % 5                        # noqa: E731  variable widths 1..5
    chroms = [("chrS", 3), ("chrA", 9000), ("chrB", 4200)]
    bins, off = [], {}
    for c, nb in chroms:
        off[c] = len(bins)
        pos = 0
        for k in range(nb):
            bins.append((c, pos, pos + widths(k)))
            pos += widths(k)
    p = scratch.fresh()
    try:
        n = len(bins)
        build.create(p, bins, {(0, 0): 1, (5, n - 1): 2}, True)
        clr = cooler.Cooler(p)
        if clr.binsize is not None:
            R.mismatch("harness:table-not-variable", {"n": n}, str(clr.binsize))
            return
        for c, nb in chroms[1:]:
            starts = [b[1] for b in bins[off[c]:off[c] + nb]]
            L = bins[off[c] + nb - 1][2]
            ks = sorted({k for base in [0, nb // 4, nb // 2, 3 * nb // 4, nb - 1] + [2 ** e for e in range(1, 14)] + [nb // 8 * q for q in range(1, 8)]
                         for k in (base - 1, base, base + 1) if 0 <= k < nb})
            kk = 0
            for k in ks:
                for (s, e, want) in ((starts[k], L, (k, nb)), (0, starts[k], (0, k)), (starts[k], starts[k] + 1, (k, k + 1)),
                                     (max(0, starts[k] - 1), starts[k], (max(0, k - 1), k)), (starts[max(0, k - 3)], starts[k], (max(0, k - 3), k))):
                    if s >= e:
                        continue
                    kk += 1
                    inner = {"chrom": c, "range": [s, e]}
                    if only is not None and only != inner:
                        continue
                    R.order = (R.order[0], kk)
                    R.ev(1, 1)
                    R.add("transitions", 2)
                    R.cls("manybins")
                    want = (off[c] + want[0], off[c] + want[1])
                    try:
                        got = tuple(int(x) for x in clr.extent((c, s, e)))
                        if got != want:
                            R.mismatch("Cooler.extent!=cover(many-bins)", inner, f"got={got} want={want}")
                            continue
                        if kk % 16 == 0:
                            bf = clr.bins().fetch(f"{c}:{s}-{e}")
                            if list(bf.index[[0, -1]]) != [want[0], want[1] - 1] or len(bf) != want[1] - want[0]:
                                R.mismatch("bins.fetch!=cover(many-bins)", inner, f"{bf.index[0]}..{bf.index[-1]} ({len(bf)} rows) want {want}")
                    except Exception as ex:
                        R.mismatch("raises:" + type(ex).__name__, inner, f"{ex!s:.200}")
    finally:
        scratch.rm(p)


def _binsizes(R, unit, only):
    if not seamprobe.internal_ok(R, "C04:function", _func_probe):
        return
    from cooler import util
    from cooler.core import region_to_extent, region_to_offset
    R.add("states")
    R.add("traces")
    for b in range(unit["lo"], unit["hi"]):
        inner = {"binsize": b}
        if only is not None and only != inner:
            continue
        sizes = [("chr2", 3 * b), ("chr10", 41 * b - b // 2)]
        bins = models.ref_binnify(sizes, b)
        names = [c for c, _ in sizes]
        df = build.bins_df(bins)
        bs = util.get_binsize(df)
        if bs is None or int(bs) != b:
            R.mismatch("get_binsize(binnified-table)", inner, f"{bs}")
            continue
        coff = np.array(models.ref_indptr([names.index(x[0]) for x in bins], len(names)), dtype=np.int64)
        grp = {"indexes": {"chrom_offset": coff}, "bins": {"start": np.array([x[1] for x in bins], dtype=np.int64), "end": np.array([x[2] for x in bins], dtype=np.int64),
                    "chrom": np.array([names.index(x[0]) for x in bins], dtype=np.int32)},
           "chroms": {"length": np.array([max(x[2] for x in bins if x[0] == nm) for nm in names], dtype=np.int64)}}
        ids = {nm: k for k, nm in enumerate(names)}
        L = sizes[1][1]
        pts = sorted({p for m in range(0, 42) for p in (m * b - 1, m * b, m * b + 1) if 0 <= p <= L} | {L})
        R.cls("binsizes")
        bad = None
        nreg = 0
        for s in pts:
            for e in (s, s + 1, min(L, (s // b + 1) * b), min(L, (s // b + 1) * b + 1), min(L, s + 7 * b), L):
                if e < s:
                    continue
                nreg += 1
                # integer reference: first bin = s // b, one past the last = ceil(e / b); offset 3 bins of the first chromosome
                want = (3 + s // b, 3 + -(-e // b)) if s < e else None
                try:
                    lo, hi = [int(x) for x in region_to_extent(grp, ids, ("chr10", s, e), b)]
                    off = int(region_to_offset(grp, ids, ("chr10", s, e), b))
                except Exception as ex:
                    bad = bad or f"({s},{e}) raises {type(ex).__name__}: {ex!s:.100}"
                    continue
                if want is not None and ((lo, hi) != want or off != lo):
                    bad = bad or f"range ({s},{e}): extent=({lo},{hi}) offset={off} want={want}"
                elif want is None:
                    msg = _judge(bins, "chr10", s, e, lo, hi)
                    if msg:
                        bad = bad or f"range ({s},{e}): {msg}"
        R.ev(nreg, nreg)
        R.add("transitions", 2 * nreg)
        if bad:
            R.mismatch("extent!=cover:binsize", inner, bad)


def run(unit, R, tier, only=None):
    if unit["leg"] == "manybins":
        _manybins(R, only)
        return
    if unit["leg"] == "binsizes":
        _binsizes(R, unit, only)
        return
    if unit["leg"] == "large":
        _large(R, only)
        return
    if unit["leg"] == "func":
        tabs = alpha.bin_tables(3, unit["B"])[unit["lo"]:unit["hi"]]
        for t in tabs:
            for flavour in ("abc", "chr"):
                if only is not None and (only.get("table") != [list(x) for x in t] or only.get("names") != flavour):
                    continue
                _func_table(R, t, flavour, only)
        R.sample({"leg": "func", "table(widths per chromosome)": [list(c) for c in tabs[-1]], "regions": "all 0<=s<=e<=L per chromosome"})
    else:
        t = alpha.bt_rep(3, unit["B"])[unit["k"]]
        _api_table(R, t, tier, only, unit["k"])
        if unit["k"] == 5:
            R.sample({"leg": "api", "table": [list(c) for c in t], "calls": "extent, offset, bins.fetch, pixels.fetch, matrix.fetch(r), matrix.fetch(r1,r2)"})
