"""C06 — unordered ingestion equals aggregating all records in memory (E1)."""
from __future__ import annotations

import gc
import itertools
import os
import subprocess
import sys

import numpy as np
import pandas as pd

from vmc import alpha, build, fixtures as fx, h5ref, models
from vmc.core import scratch

ID = "C06"
LEVEL = "model_checking"
RULE = ("record lists = every multiset of m<=M records over a 4-pixel alphabet (repeats allowed, values pairwise distinct per record) "
        "x EVERY ordered set partition into chunks (+ an empty chunk at every gap, + the empty list and all-empty streams) x mergebuf "
        "x max_merge (single-pass and two-pass merge) x storage mode x fixed/variable table x sorted chunks | unsorted chunks with "
        "ensure_sorted; also through `cooler load` and `cload pairs` with --chunksize/--mergebuf/--max-merge. Oracle: dict-sum of all "
        "records, validator V on the output, explicit temp_dir empty after return (plus one fresh-interpreter run). Non-trivial: >=2 "
        "chunks. Distinct by construction.")
EXTRA_LEGS = 'bin-id columns of the chunks rotate through int64/uint32/int32/uint16/uint64/int16 (unsorted chunks visited with unsigned ids).' + ' records repeated inside one chunk are, every other time, handed over raw with dupcheck=False instead of pre-summed.'
BOUNDS = {"quick": "M=3; mergebuf {1,2,1e6} x max_merge {1,2,200} on the symmetric fixed-width line, 3 diagonal combinations for streams with an empty chunk / square mode / variable table; empty-chunk insertions on partitions with <=2 blocks",
          "thorough": "M=4; mergebuf {1,2,3,m,1e6} x max_merge {1,2,3,200} in full for M<=3; at M=4 mergebuf {1,2,4,1e6} x max_merge {1,2,200} on the symmetric fixed-width line and three diagonal combinations for square mode / variable table; empty-chunk insertions everywhere for M<=3"}
ASSUMPTIONS = ["records repeated inside one chunk are pre-summed by the harness, or (every other such case) handed over raw with dupcheck=False", "values are small integers / dyadic rationals: sums are exact"]
EXPECT_CLASSES = {"*": ["chunks:1", "chunks:2", "chunks:3", "two-pass", "single-pass", "with-empty-chunk", "cli"]}

ALPHA_SYMM = [(0, 0), (0, 3), (1, 2), (3, 3)]
ALPHA_SQ = [(0, 0), (3, 0), (1, 2), (2, 1)]


def _lists(M):
    out = [[]]
    for m in range(1, M + 1):
        out += [list(c) for c in itertools.combinations_with_replacement(range(4), m)]
    return out


def units(tier):
    th = tier == "thorough"
    M = 4 if th else 3
    for li, lst in enumerate(_lists(M)):
        for symm, tab in ((True, "F"), (False, "F"), (True, "V")):
            if (not symm or tab == "V") and len(lst) > 2 and not th:
                if li % 3:
                    continue
            yield {"leg": "api", "list": lst, "symm": symm, "tab": tab}
    for k in range(6):
        yield {"leg": "cli", "k": k}
    yield {"leg": "fresh-process"}
    for lst in ([0, 0, 1], [2, 3, 2, 0], [1, 1, 1, 1, 2]):
        yield {"leg": "floatcount", "list": lst}


def _records(lst, symm):
    """record q of the list: pixel = alphabet[lst[q]], value distinct per record"""
    al = ALPHA_SYMM if symm else ALPHA_SQ
    return [(al[p], {"count": 10 * (q + 1) + p, "score": fx.score_of(10 * (q + 1) + p)}) for q, p in enumerate(lst)]


IDTYPES = (np.int64, np.uint32, np.int32, np.uint16, np.uint64, np.int16)


def _chunk_frame(recs, sort=True, idt=np.int64, presum=True):
    if not presum:
        # raw records: a pixel may occur several times in the chunk (only accepted with dupcheck=False)
        rows = sorted(recs, key=lambda r: r[0], reverse=not sort)
        return pd.DataFrame({"bin1_id": np.array([r[0][0] for r in rows], dtype=idt), "bin2_id": np.array([r[0][1] for r in rows], dtype=idt),
                             "count": np.array([r[1]["count"] for r in rows], dtype=np.int64),
                             "score": np.array([r[1]["score"] for r in rows], dtype=float)})
    acc = {}
    for pix, v in recs:
        if pix in acc:
            acc[pix] = {c: acc[pix][c] + v[c] for c in v}
        else:
            acc[pix] = dict(v)
    keys = sorted(acc) if sort else sorted(acc, reverse=True)
    return pd.DataFrame({"bin1_id": np.array([k[0] for k in keys], dtype=idt), "bin2_id": np.array([k[1] for k in keys], dtype=idt),
                         "count": np.array([acc[k]["count"] for k in keys], dtype=np.int64),
                         "score": np.array([acc[k]["score"] for k in keys], dtype=float)})


def _api(R, unit, tier, only):
    import cooler
    th = tier == "thorough"
    lst, symm, tab = unit["list"], unit["symm"], unit["tab"]
    table = fx.TABLE_F if tab == "F" else ((1, 3), (2, 2))
    bins = alpha.table_bins(table, "chr")
    bdf = build.bins_df(bins)
    recs = _records(lst, symm)
    m = len(recs)
    want = {}
    for c in ("count", "score"):
        for k, v in models.ref_aggregate(((p, val[c]) for p, val in recs)).items():
            want.setdefault(k, {})[c] = v
    deep = th and m <= 3
    bufs = sorted({1, 2, 3, max(m, 1), 10 ** 6}) if deep else ([1, 2, m, 10 ** 6] if th else [1, 2, 10 ** 6])
    mms = [1, 2, 3, 200] if deep else [1, 2, 200]
    parts = alpha.ordered_set_partitions(m)
    streams = []
    for part in parts:
        streams.append((part, "plain"))
        if th and m <= 3 or len(part) <= 2:
            for g in range(len(part) + 1):
                streams.append((part[:g] + [[]] + part[g:], "with-empty"))
    if m == 0:
        streams = [([], "plain"), ([[]], "with-empty"), ([[], []], "with-empty")]
    R.add("states")
    R.add("traces")
    tdir = scratch.sub(f"c06tmp{os.getpid()}")
    kk = 0
    for part, kind in streams:
        for buf in bufs:
            for mm in mms:
                if (not th or m >= 4) and (kind == "with-empty" or not symm or tab == "V") and (buf, mm) not in ((1, 1), (2, 2), (10 ** 6, 200)):
                    continue   # quick (and four-record lists in thorough): reduced (mergebuf, max_merge) product off the main line
                for srt in ((True, False) if (buf, mm) in ((bufs[0], mms[-1]), (bufs[0], mms[0])) and m else (True,)):
                    kk += 1
                    inner = {"chunks": part, "mergebuf": buf, "max_merge": mm, "sorted": srt}
                    if only is not None and only != inner:
                        continue
                    R.order = (R.order[0], kk)
                    nch = len(part)
                    R.ev(1, 1 if nch >= 2 else 0)
                    R.add("transitions")
                    R.cls("chunks:%d" % min(nch, 4))
                    R.cls("two-pass" if nch > mm > 0 else "single-pass")
                    if kind == "with-empty":
                        R.cls("with-empty-chunk")
                    out = scratch.fresh()
                    try:
                        # the bin-id columns of the chunks rotate through signed and unsigned integer dtypes (every configuration
                        # with unsorted chunks is visited with an unsigned one at least every other time)
                        idt = IDTYPES[kk % len(IDTYPES)] if srt else IDTYPES[1 + 2 * (kk // 2 % 2)] if kk % 2 else IDTYPES[kk // 2 % len(IDTYPES)]
                        R.cls("idtype:" + np.dtype(idt).name + ("" if srt else ":unsorted"))
                        # a block that holds the same pixel twice: every other time its records are handed over RAW, with the duplicate
                        # check switched off (records of one pixel are combined wherever they meet - inside a chunk or across chunks)
                        rawdup = kk % 2 == 1 and any(len({recs[q][0] for q in blk}) < len(blk) for blk in part)
                        if rawdup:
                            R.cls("raw-repeats-inside-a-chunk")
                        chunks = [_chunk_frame([recs[q] for q in blk], sort=srt, idt=idt, presum=not rawdup) for blk in part]
                        try:
                            # unsorted chunks: sorting is requested; on every other such case the three validity checks are switched
                            # off as well (the request to sort must not depend on them)
                            off = (not srt) and kk % 2 == 0
                            if off:
                                R.cls("ensure_sorted-with-checks-off")
                            cooler.create_cooler(out, bdf, iter(chunks), columns=["count", "score"], dtypes={"score": float},
                                                 ordered=False, symmetric_upper=symm, mergebuf=buf, max_merge=mm,
                                                 temp_dir=tdir, ensure_sorted=not srt,
                                                 **({"boundscheck": False, "dupcheck": False, "triucheck": False} if off else {"dupcheck": False} if rawdup else {}))
                        except Exception as e:
                            R.mismatch("create-raises:" + type(e).__name__, inner, f"{e!s:.300}")
                            e = None
                            gc.collect()
                            for f in os.listdir(tdir):   # leftovers of a FAILED run are not this property's business
                                scratch.rm(os.path.join(tdir, f))
                            continue
                        got, rd = fx.read(out)
                        msg = fx.same_values(got, want, ("count", "score"))
                        if msg:
                            R.mismatch("result!=in-memory-aggregate", inner, msg)
                        v = h5ref.validate(out)
                        if v:
                            R.mismatch("V:" + v[0], inner, f"{v}")
                        tot = sum(val["count"] for _, val in recs)
                        if rd["attrs"].get("sum") != tot:
                            R.mismatch("sum-attr", inner, f"{rd['attrs'].get('sum')} vs {tot}")
                        left = os.listdir(tdir)
                        if left:
                            R.mismatch("temporary-file-outlives-run", inner, f"{left}")
                            for f in left:
                                scratch.rm(os.path.join(tdir, f))
                        R.outcome(sorted((k, v["count"]) for k, v in got.items()))
                    finally:
                        scratch.rm(out)
    scratch.rm(tdir)


def _floatcount(R, lst, only):
    """the value column itself is float64 with fractional values (non-default dtype): single- and two-pass merges must keep them"""
    import cooler
    bins = alpha.table_bins(fx.TABLE_F, "chr")
    bdf = build.bins_df(bins)
    recs = [(ALPHA_SYMM[p], 0.25 + 1.5 * (q + 1)) for q, p in enumerate(lst)]
    want = models.ref_aggregate(recs)
    m = len(recs)
    R.add("states")
    R.add("traces")
    tdir = scratch.sub(f"c06f{os.getpid()}")
    kk = 0
    for part in alpha.ordered_set_partitions(min(m, 4)) if m <= 4 else [[[q] for q in range(m)], [[0, 1], [2], [3, 4]], [[4], [3], [2], [1], [0]]]:
        for mm in (1, 2, 200):
            for buf in (1, 10 ** 6):
                kk += 1
                inner = {"chunks": part, "max_merge": mm, "mergebuf": buf}
                if only is not None and only != inner:
                    continue
                R.order = (R.order[0], kk)
                R.ev(1, 1 if len(part) > 1 else 0)
                R.add("transitions")
                R.cls("float-count")
                R.cls("two-pass" if len(part) > mm > 0 else "single-pass")
                out = scratch.fresh()
                try:
                    chunks = []
                    for blk in part:
                        acc = {}
                        for q in blk:
                            acc[recs[q][0]] = acc.get(recs[q][0], 0.0) + recs[q][1]
                        ks = sorted(acc)
                        chunks.append(pd.DataFrame({"bin1_id": [k[0] for k in ks], "bin2_id": [k[1] for k in ks], "count": np.array([acc[k] for k in ks], dtype=float)}))
                    try:
                        cooler.create_cooler(out, bdf, iter(chunks), dtypes={"count": np.float64}, ordered=False, mergebuf=buf, max_merge=mm, temp_dir=tdir)
                    except Exception as e:
                        R.mismatch("create-raises:" + type(e).__name__, inner, f"{e!s:.300}")
                        continue
                    got, rd = fx.read(out)
                    if {k: v["count"] for k, v in got.items()} != want:
                        R.mismatch("result!=in-memory-aggregate", inner, f"got={got} want={want}")
                finally:
                    scratch.rm(out)
    scratch.rm(tdir)


def _cli(R, k, only):
    """cooler load -f coo and cload pairs with chunksize 1..m+1, --mergebuf, --max-merge"""
    d = scratch.sub(f"c06cli{os.getpid()}_{k}")
    table = fx.TABLE_F
    bins = alpha.table_bins(table, "chr")
    bed = os.path.join(d, "bins.bed")
    with open(bed, "w") as f:
        for b in bins:
            f.write("\t".join(str(x) for x in b) + "\n")
    lists = [[0, 1, 2], [2, 1, 0, 3], [3, 3, 0], [1, 0, 1, 0], [0, 1, 2, 3, 0], [2, 2]]
    lst = lists[k]
    m = len(lst)
    R.add("states")
    R.add("traces")
    kk = 0
    # load -f coo: pre-binned lines (a pixel may repeat in different chunks only -> chunksize decides; the loader sums across chunks)
    for cs in range(1, m + 2):
        for mm in (1, 2, 200):
            for mb in (None, 1, 2):
                kk += 1
                inner = {"cmd": "load", "list": lst, "chunksize": cs, "max_merge": mm, "mergebuf": mb}
                if only is not None and only != inner:
                    continue
                # skip layouts where one text chunk would contain the same pixel twice (invalid input for `load`)
                blocks = [lst[i:i + cs] for i in range(0, m, cs)]
                if any(len(set(b)) != len(b) for b in blocks):
                    continue
                R.order = (R.order[0], kk)
                R.ev(1, 1 if len(blocks) >= 2 else 0)
                R.add("transitions")
                R.cls("cli")
                recs = _records(lst, True)
                pf = os.path.join(d, f"in{kk}.coo")
                with open(pf, "w") as f:
                    for (i, j), v in recs:
                        f.write(f"{i}\t{j}\t{v['count']}\n")
                out = os.path.join(d, f"o{kk}.cool")
                td = os.path.join(d, f"t{kk}")
                os.makedirs(td)
                args = ["load", "-f", "coo", "--chunksize", cs, "--max-merge", mm, "--temp-dir", td] + (["--mergebuf", mb] if mb else []) + [bed, pf, out]
                code, so, exc = build.cli(args)
                if code != 0 or exc is not None:
                    R.mismatch("load-fails", inner, f"code={code} exc={exc!r}")
                    continue
                want = models.ref_aggregate((p, v["count"]) for p, v in recs)
                got, rd = fx.read(out)
                if {kx: v["count"] for kx, v in got.items()} != want:
                    R.mismatch("load!=in-memory-aggregate", inner, f"got={got} want={want}")
                if os.listdir(td):
                    R.mismatch("temporary-file-outlives-run", inner, f"{os.listdir(td)}")
                v = h5ref.validate(out)
                if v:
                    R.mismatch("V:" + v[0], inner, f"{v}")
                scratch.rm(out, pf, td)
    # cload pairs: each record = `count` pair lines? no: one line per contact; use positions inside the pixels' bins
    pos = {0: 0, 1: 2, 2: 0, 3: 3}   # bin -> (chrom-local) position; bins 0,1 on chr2, 2,3 on chr10
    chrom = {0: "chr2", 1: "chr2", 2: "chr10", 3: "chr10"}
    for cs in range(1, m + 2):
        for mm in (1, 2, 200):
            kk += 1
            inner = {"cmd": "cload", "list": lst, "chunksize": cs, "max_merge": mm}
            if only is not None and only != inner:
                continue
            R.order = (R.order[0], kk)
            R.ev(1, 1 if m > cs else 0)
            R.add("transitions")
            R.cls("cli")
            al = ALPHA_SYMM
            pf = os.path.join(d, f"in{kk}.pairs")
            with open(pf, "w") as f:
                for q, p in enumerate(lst):
                    i, j = al[p]
                    f.write(f"r{q}\t{chrom[i]}\t{pos[i]}\t{chrom[j]}\t{pos[j]}\t+\t-\n")
            out = os.path.join(d, f"o{kk}.cool")
            td = os.path.join(d, f"t{kk}")
            os.makedirs(td)
            code, so, exc = build.cli(["cload", "pairs", "-c1", 2, "-p1", 3, "-c2", 4, "-p2", 5, "--zero-based", "--chunksize", cs,
                                       "--max-merge", mm, "--temp-dir", td, bed, pf, out])
            if code != 0 or exc is not None:
                R.mismatch("cload-fails", inner, f"code={code} exc={exc!r}")
                continue
            want = models.ref_aggregate((al[p], 1) for p in lst)
            got, rd = fx.read(out)
            if {kx: v["count"] for kx, v in got.items()} != want:
                R.mismatch("cload!=in-memory-aggregate", inner, f"got={got} want={want}")
            if os.listdir(td):
                R.mismatch("temporary-file-outlives-run", inner, f"{os.listdir(td)}")
            scratch.rm(out, pf, td)
    scratch.rm(d)


FRESH = r'''
import os, sys, warnings
warnings.simplefilter("ignore")
import numpy as np, pandas as pd
td = sys.argv[1]
import cooler
bins = pd.DataFrame({"chrom": ["a", "a", "b", "b"], "start": [0, 2, 0, 2], "end": [2, 4, 2, 4]})
def px(rows): return pd.DataFrame(rows, columns=["bin1_id", "bin2_id", "count"])
for k, kw in enumerate([dict(), dict(max_merge=1), dict(mergebuf=1)]):
    cooler.create_cooler(os.path.join(td, "out%d.cool" % k), bins, iter([px([(0, 1, 1)]), px([(0, 0, 2), (0, 1, 3)])]), ordered=False,
                         temp_dir=os.path.join(td, "tmp"), **kw)
    print("LEFT", k, sorted(os.listdir(os.path.join(td, "tmp"))))
'''


def _fresh(R, only):
    """the very first unordered creation in a fresh interpreter (no module warmed up)"""
    d = scratch.sub(f"c06fresh{os.getpid()}")
    os.makedirs(os.path.join(d, "tmp"), exist_ok=True)
    R.add("states")
    R.add("traces")
    R.ev(3, 3)
    R.add("transitions", 3)
    R.cls("fresh-process")
    env = dict(os.environ)
    r = subprocess.run([sys.executable, "-W", "ignore", "-c", FRESH, d], capture_output=True, text=True, env=env, timeout=300)
    if r.returncode != 0:
        R.mismatch("fresh-process-fails", None, r.stderr[-400:])
    else:
        for ln in r.stdout.splitlines():
            if ln.startswith("LEFT"):
                _, k, rest = ln.split(" ", 2)
                if rest.strip() != "[]":
                    R.mismatch("temporary-file-outlives-run", {"call": int(k)}, f"first process, call #{k}: left {rest}")
    scratch.rm(d)


def run(unit, R, tier, only=None):
    leg = unit["leg"]
    if leg == "api":
        _api(R, unit, tier, only)
        if unit["list"] == [0, 0, 1] and unit["symm"] and unit["tab"] == "F":
            R.sample({"leg": leg, "records(pixel index per record)": unit["list"], "alphabet": ALPHA_SYMM,
                      "chunkings": alpha.ordered_set_partitions(3)[:6], "mergebuf/max_merge": "product"})
    elif leg == "cli":
        _cli(R, unit["k"], only)
    elif leg == "fresh-process":
        _fresh(R, only)
    elif leg == "floatcount":
        _floatcount(R, unit["list"], only)
    else:
        raise ValueError(leg)


def classify(m):
    """F09: 2 or 3 chunks with 0 < max_merge < number of chunks: np.linspace(0, n, int(sqrt(n))) has a single edge, no first-pass
    merge is produced and the final merger gets an empty list (IndexError).
    F10b: zero chunks at all (empty iterable): CoolerMerger([]) -> IndexError.
    F18: the temp file of the FIRST unordered creation in a process survives the call."""
    u = m["case"]["unit"]
    inner = m["case"].get("inner") or {}
    if m["clause"] == "create-raises:IndexError" and u.get("leg") == "api":
        n = len(inner.get("chunks", []))
        mm = inner.get("max_merge", 0)
        if n == 0:
            return "F10b"
        if n in (2, 3) and 0 < mm < n:
            return "F09"
    if m["clause"] in ("load-fails", "cload-fails") and "IndexError" in m["detail"]:
        lst, cs, mm = inner["list"], inner["chunksize"], inner["max_merge"]
        n = -(-len(lst) // cs)
        if n in (2, 3) and 0 < mm < n:
            return "F09"
    if m["clause"] == "temporary-file-outlives-run" and u.get("leg") == "fresh-process" and inner.get("call") == 0:
        return "F18"
    return None
