"""C19 — region and URI strings parse to exactly what they denote, or are refused (E1)."""
from __future__ import annotations

import itertools
from decimal import Decimal

from vmc import models

ID = "C19"
LEVEL = "model_checking"
RULE = ("every integer 0..N and 40 large ones written plainly, with thousands separators, as exact decimal mantissa x each unit spelling and with BOTH separators and a unit; mantissa x "
        "each unit spelling (k,K,kb,Kb,KB,m,M,Mb,MB,g,G,Gb), in start / end / open-ended position, under 14 chromosome "
        "names; all ordered pairs of a 60-value coordinate set; format->parse round trip; families of malformed strings "
        "(empty name, missing hyphen, negative, non-numeric, reversed, unknown unit); parse_region against chromosome "
        "sizes; URI spellings. Oracle: exact Fraction arithmetic (ref_number). Non-trivial: the numeral uses separators, "
        "a decimal point or a unit, or the string must be refused. Distinct by construction.")
EXTRA_LEGS = "numerals padded with trailing zeros beyond the unit's decimal places." + ' object-strings: the same region strings resolved through extent / bins().fetch / matrix().fetch on ONE Cooler object before and after its chromosomes are renamed among each other.'
BOUNDS = {"quick": "N = 100000", "thorough": "N = 2000000"}
ASSUMPTIONS = ["unit-less decimals ('1000.0'), misgrouped commas, inner whitespace, a second colon and trailing garbage after "
               "a complete range are not classified by the statement and are not judged",
               "strings are built with decimal/int arithmetic, never floats"]
EXPECT_CLASSES = {"*": ["spelling:plain", "spelling:commas", "spelling:k", "spelling:M", "spelling:G", "spelling:commas+unit", "spelling:padded", "malformed", "uri", "parse_region:string-open-beyond"]}

NAMES = ["chr1", "1", "chrX_random", "name-with-hyphens-", "GL000207.1", "gb|acc|locus", "chr 1", "2-micron", "a.b", "X",
         "chrUn_KI270742v1", "-", "k", "10k"]
UNITS = {"k": (3, ["k", "K", "kb", "Kb", "KB"]), "M": (6, ["m", "M", "Mb", "MB"]), "G": (9, ["g", "G", "Gb"])}
LARGE = sorted({10 ** 6 - 1, 10 ** 6, 10 ** 6 + 1, 2 ** 31 - 1, 2 ** 31, 10 ** 9, 10 ** 9 + 1, 123456789, 999999999,
                1001001001, 2 ** 32, 2 ** 40, 3 * 10 ** 9 + 7, 1500000, 2500001, 1000001000, 12345678901, 10 ** 12,
                10 ** 12 + 1, 4294967297, 1001, 1999, 99999999, 100000001, 7 * 10 ** 8 + 3, 8 * 10 ** 9 + 9,
                10 ** 15 + 1, 2 ** 53 - 1, 2 ** 53 + 1, 600000001, 700000003, 900000009, 1100000011, 1300000013,
                1700000017, 1900000019, 2300000023, 2900000029, 3100000031, 3700000037})
BLOCK = 2500


def units(tier):
    N = 2000000 if tier == "thorough" else 100000
    for lo in range(0, N + 1, BLOCK):
        yield {"leg": "numerals", "lo": lo, "hi": min(N + 1, lo + BLOCK)}
    yield {"leg": "numerals-large"}
    for k in range(len(NAMES)):
        yield {"leg": "pairs", "name": k}
    yield {"leg": "malformed"}
    yield {"leg": "parse_region"}
    # 'any fetch() taking a region string': the same strings resolved on ONE Cooler object before and after its chromosomes are
    # renamed among each other (a string denotes what it denotes under the chromosome table of the moment)
    yield {"leg": "object-strings"}
    yield {"leg": "uri"}


def mantissa(v, digits):
    """exact decimal string of v / 10**digits without exponent, minimal form"""
    d = Decimal(v).scaleb(-digits)
    s = format(d, "f")
    if "." in s:
        s = s.rstrip("0").rstrip(".")
    return s or "0"


def spellings(v):
    """-> list of (class, string) all denoting exactly the integer v"""
    out = [("plain", str(v)), ("commas", f"{v:,}")]
    for u, (dg, names) in UNITS.items():
        m = mantissa(v, dg)
        for nm in names:
            out.append((u, m + nm))
        # the same decimal written with trailing zeros: as many fractional digits as the unit has places, one more, four more
        ipart, _, fpart = m.partition(".")
        for nd in (dg, dg + 1, dg + 4):
            if nd > len(fpart):
                out.append(("padded", ipart + "." + fpart.ljust(nd, "0") + names[v % len(names)]))
        # thousands separators AND a unit: "1,500kb", "12,345.678k"
        ip, _, fp = m.partition(".")
        if len(ip) > 3:
            out.append(("commas+unit", f"{int(ip):,}" + ("." + fp if fp else "") + names[0]))
            out.append(("commas+unit", f"{int(ip):,}" + ("." + fp if fp else "") + names[-1]))
    return out


def _parse(s):
    from cooler import util
    try:
        return ("ok", util.parse_region_string(s))
    except Exception as e:
        return ("refused", type(e).__name__)


def _numerals(R, values, only):
    k = 0
    for v in values:
        for pos in ("start", "end", "open"):
            for cls_, sp in spellings(v):
                k += 1
                if pos == "start":
                    s, want = f"chr1:{sp}-{v + 7}", ("chr1", v, v + 7)
                elif pos == "end":
                    s, want = f"chr1:0-{sp}", ("chr1", 0, v)
                else:
                    s, want = f"chr1:{sp}-", ("chr1", v, None)
                if only is not None and only != {"s": s}:
                    continue
                R.order = (R.order[0], k)
                R.c["evaluations"] += 1
                R.c["nontrivial"] += cls_ != "plain"
                R.c["transitions"] += 1
                R.classes["spelling:" + cls_] += 1
                # the oracle itself is recomputed from the string (ref_region_string), and must agree with construction
                ref = models.ref_region_string(s)
                assert ref == want, (s, ref, want)
                got = _parse(s)
                if got != ("ok", want):
                    R.mismatch("wrong-value" if got[0] == "ok" else "wellformed-refused", {"s": s}, f"got={got} want={want}")
    R.add("states", len(values))
    R.add("traces", len(values))


def _pairs(R, name, only):
    coords = sorted(set(list(range(0, 12)) + [99, 100, 101, 999, 1000, 1001, 1500, 9999, 10000, 12345, 99999, 100000, 999999,
                                              1000000, 1000001, 1234567, 2 ** 31 - 1, 2 ** 31, 10 ** 9, 10 ** 9 + 1]
                        + [7 * 10 ** k for k in range(1, 9)] + [10 ** k + 1 for k in range(2, 12)] + [3 * 2 ** k for k in range(10, 20)]))[:60]
    k = 0
    R.add("states")
    R.add("traces")
    for a, b in itertools.combinations_with_replacement(coords, 2):
        for form in ("plain", "commas", "mixed-units"):
            k += 1
            if form == "plain":
                s = f"{name}:{a}-{b}"
            elif form == "commas":
                s = f"{name}:{a:,}-{b:,}"
            else:
                s = f"{name}:{mantissa(a, 3)}kb-{mantissa(b, 6)}M"
            if only is not None and only != {"s": s}:
                continue
            R.order = (R.order[0], k)
            R.ev(1, 1)
            R.add("transitions")
            R.cls("roundtrip:" + form)
            got = _parse(s)
            if got != ("ok", (name, a, b)):
                R.mismatch("format-parse-roundtrip", {"s": s}, f"got={got} want={(name, a, b)}")
    for s, want in [(name, (name, None, None)), (f"{name}:5-", (name, 5, None)), (f"{name}:0-0", (name, 0, 0))]:
        k += 1
        if only is not None and only != {"s": s}:
            continue
        R.ev(1, 1)
        R.add("transitions")
        R.cls("bare-or-open")
        got = _parse(s)
        if got != ("ok", want):
            R.mismatch("bare-or-open-form", {"s": s}, f"got={got} want={want}")


def malformed_strings():
    out = []
    nums = ["5", "1,000", "1.5k", "2M"]
    for n in ("chr1", "2-micron", "a.b"):
        # missing hyphen
        for a in nums:
            out.append(("missing-hyphen", f"{n}:{a}"))
        out.append(("missing-hyphen", f"{n}:"))
        # negative
        for a in nums:
            out.append(("negative", f"{n}:-{a}-10M"))
            out.append(("negative", f"{n}:{a}--10M"))
            out.append(("negative", f"{n}:-{a}-"))
            out.append(("negative", f"{n}:-{a}--3"))
        # non-numeric
        for bad in ("a", "abc", "x1", "#", "1.2.3", "..", "1e3", "0x10", "one", "k", "kb", "$5", "1_000", "+5", "5+", "²"):
            out.append(("non-numeric", f"{n}:{bad}-10M"))
            out.append(("non-numeric", f"{n}:1-{bad}"))
            out.append(("non-numeric", f"{n}:{bad}-"))
        # reversed
        for a, b in (("10", "5"), ("1k", "999"), ("2M", "1.5M"), ("1,001", "1k"), ("1G", "999,999,999"), ("1", "0"), ("0.002M", "1.999k")):
            out.append(("reversed", f"{n}:{a}-{b}"))
        # unknown unit
        for u in ("x", "t", "T", "kbp", "bp", "b", "B", "kk", "mm", "gbb", "kilo", "P", "bk", "Kbs"):
            out.append(("unknown-unit", f"{n}:1{u}-10M"))
            out.append(("unknown-unit", f"{n}:1-2{u}"))
            out.append(("unknown-unit", f"{n}:1.5{u}-"))
    # empty name
    for rest in (":1-2", " :1-2", ":", "", " ", ":5-", "\t:1-2"):
        out.append(("empty-name", rest))
    return out


def _malformed(R, only):
    k = 0
    R.add("states")
    R.add("traces")
    for cls_, s in malformed_strings():
        k += 1
        if only is not None and only != {"s": s}:
            continue
        R.order = (R.order[0], k)
        R.ev(1, 1)
        R.add("transitions")
        R.cls("malformed")
        R.cls("malformed:" + cls_)
        try:
            models.ref_region_string(s)
            raise AssertionError("reference accepts a malformed string: %r" % s)
        except models.Refuse:
            pass
        got = _parse(s)
        if got[0] != "refused":
            R.mismatch("malformed-accepted:" + cls_, {"s": s}, f"got={got}")
        R.outcome(got)


def _parse_region(R, only):
    from cooler import util
    import pandas as pd
    sizes = {"chr1": 1000, "2-micron": 1, "a.b": 25}
    k = 0
    R.add("states")
    R.add("traces")
    for cs in (sizes, pd.Series(sizes)):
        for name, L in sizes.items():
            cases = []
            for s in range(-2, min(L, 30) + 3):
                for e in list(range(-2, min(L, 30) + 3)) + [L, L + 1]:
                    cases.append(((name, s, e), "tuple"))
            for s in (None, 0, 1):
                for e in (None, L, L + 1):
                    cases.append(((name, s, e), "tuple-none"))
            for s in (0, 1, L):
                for e in (s, L, L + 1, L + 1000):
                    if e >= s:
                        cases.append((f"{name}:{s}-{e}", "string"))
                cases.append((f"{name}:{s}-", "string-open"))
            for s in (L + 1, L + 5, 10 * L + 7):      # open-ended range that STARTS beyond the chromosome
                cases.append((f"{name}:{s}-", "string-open-beyond"))
                cases.append(((name, s, None), "tuple-open-beyond"))
            cases.append((name, "bare"))
            cases.append((("nochr", 0, 1), "unknown"))
            cases.append(("nochr:0-1", "unknown"))
            cases.append(("nochr", "unknown"))
            for reg, kind in cases:
                k += 1
                inner = {"reg": list(reg) if isinstance(reg, tuple) else reg, "series": not isinstance(cs, dict)}
                if only is not None and only != inner:
                    continue
                R.order = (R.order[0], k)
                R.ev(1, 1)
                R.add("transitions")
                R.cls("parse_region:" + kind)
                if isinstance(reg, tuple):
                    c, s, e = reg
                else:
                    c, s, e = models.ref_region_string(reg)
                if c not in sizes:
                    want = "refuse"
                else:
                    s2 = 0 if s is None else s
                    e2 = sizes[c] if e is None else e
                    want = "refuse" if (s2 < 0 or e2 > sizes[c] or e2 < s2) else (c, s2, e2)
                try:
                    got = util.parse_region(reg, cs)
                    got = (got[0], int(got[1]), int(got[2]))
                except Exception as ex:
                    got = "refuse"
                if got != want:
                    R.mismatch("parse_region", inner, f"got={got} want={want}")


def _object_strings(R, only):
    import cooler
    import numpy as np
    import pandas as pd
    from vmc.core import scratch
    sizes = [("chr1", 20), ("chr2", 12), ("chr3", 6)]
    bins = [(c, a, min(a + 2, L)) for c, L in sizes for a in range(0, L, 2)]
    bdf = pd.DataFrame({"chrom": pd.Categorical([b[0] for b in bins], categories=[c for c, _ in sizes], ordered=True), "start": [b[1] for b in bins], "end": [b[2] for b in bins]})
    n = len(bins)
    pix = pd.DataFrame({"bin1_id": np.arange(n), "bin2_id": np.arange(n), "count": np.arange(1, n + 1)})
    strings = ["chr1", "chr2", "chr3", "chr1:4-", "chr2:4-", "chr3:2-", "chr1:0-12", "chr1:0-20", "chr2:2-12", "chr1:1.6e1-", "chr1:0-0.02k", "chr2:0-6", "chr3:0-6", "chr1:14-18"]
    strings = [x for x in strings if "e" not in x.split(":")[-1]]
    R.add("states")
    R.add("traces")
    p = scratch.fresh()
    try:
        cooler.create_cooler(p, bdf, pix, ordered=True)
        clr = cooler.Cooler(p)
        cur = dict(sizes)
        order = [c for c, _ in sizes]
        maps = [None, {"chr1": "chr2", "chr2": "chr1"}, {"chr1": "chr3", "chr3": "chr1"}, {"chr1": "chr2", "chr2": "chr3", "chr3": "chr1"}]
        for step, mp in enumerate(maps):
            if mp:
                cooler.rename_chroms(clr, dict(mp))
                order = [mp.get(c, c) for c in order]
                cur = {mp.get(c, c): L for c, L in cur.items()}
            offs, o = {}, 0
            for c in order:
                offs[c] = o
                o += (cur[c] + 1) // 2
            for st in strings:
                inner = {"step": step, "map": mp, "string": st}
                if only is not None and only != inner:
                    continue
                R.ev(1, 1 if step else 0)
                R.add("transitions", 3)
                R.cls("object-strings")
                c, s0, e0 = models.ref_region_string(st)
                s2 = 0 if s0 is None else s0
                e2 = cur[c] if e0 is None else e0
                want = "refuse" if (e2 > cur[c] or e2 < s2) else (offs[c] + s2 // 2, offs[c] + -(-e2 // 2))
                try:
                    got = tuple(int(x) for x in clr.extent(st))
                    f = clr.bins().fetch(st)
                    m = clr.matrix(balance=False).fetch(st)
                    if want != "refuse" and (list(f.index) != list(range(*want)) or m.shape != (want[1] - want[0],) * 2):
                        got = ("fetch", list(f.index)[:3], m.shape)
                except Exception:
                    got = "refuse"
                if got != want:
                    R.mismatch("region-string-on-object!=what-it-denotes-now", inner, f"got={got} want={want} chromosome table now={[(c, cur[c]) for c in order]}")
    finally:
        scratch.rm(p)


def _uri(R, only):
    from cooler import util
    files = ["f", "a.cool", "/abs/path/x.mcool", "rel/dir/f.cool", "with space.cool", "./x", "x.cool:1", "ü.cool"]
    groups = ["g", "g/h", "resolutions/1000", "cells/a b", "a:b", "0"]
    k = 0
    R.add("states")
    R.add("traces")
    for f in files:
        cases = [(f, (f, "/")), (f + "::", (f, "/")), (f + "::/", (f, "/"))]
        for g in groups:
            cases += [(f + "::" + g, (f, "/" + g)), (f + "::/" + g, (f, "/" + g))]
        for s, want in cases:
            k += 1
            if only is not None and only != {"s": s}:
                continue
            R.order = (R.order[0], k)
            R.ev(1, 1)
            R.add("transitions")
            R.cls("uri")
            try:
                got = tuple(util.parse_cooler_uri(s))
            except Exception as e:
                got = ("raises", type(e).__name__)
            if got != want:
                R.mismatch("uri-split", {"s": s}, f"got={got} want={want}")


def run(unit, R, tier, only=None):
    leg = unit["leg"]
    if leg == "numerals":
        _numerals(R, range(unit["lo"], unit["hi"]), only)
        R.sample({"leg": leg, "value": unit["lo"] + 1001, "spellings": [s for _, s in spellings(unit["lo"] + 1001)]})
    elif leg == "numerals-large":
        _numerals(R, LARGE, only)
    elif leg == "pairs":
        _pairs(R, NAMES[unit["name"]], only)
    elif leg == "malformed":
        _malformed(R, only)
        R.sample({"leg": leg, "strings": [s for _, s in malformed_strings()[:12]]})
    elif leg == "parse_region":
        _parse_region(R, only)
    elif leg == "object-strings":
        _object_strings(R, only)
    elif leg == "uri":
        _uri(R, only)
    else:
        raise ValueError(leg)
