"""C07 — merging coolers is the exact element-wise aggregate of the inputs (E1 + E2)."""
from __future__ import annotations

import itertools
import os

import numpy as np

from vmc import alpha, build, fixtures as fx, h5ref, models
from vmc.core import scratch

ID = "C07"
LEVEL = "model_checking"
RULE = ("pool of 8 inputs over one bin table (empty, one pixel, full row, diagonal, two disjoint supports, two identical supports "
        "with different values; count int32 + score float64): EVERY sequence of k=1,2 inputs and every multiset/sequence of 3 x "
        "mergebuf x column sets x aggregation (sum, max, min, mean, count, nunique, a callable) x storage mode x fixed/variable table, against dict-sum reference; nesting: every "
        "triple of a 4-pool merged as ((a,b),c), (a,(b,c)) and (a,b,c); refusals: every ordered pair of 9 mutually incompatible "
        "coolers; dtype limits: sums exactly at and one past the int32 / uint16 maximum, and an explicitly requested output dtype of other signedness / width (uint32->int32, int32->uint32/uint64, int64->int32/uint8, uint8->int8) with aggregates on both sides of its range. Non-trivial: >=2 inputs with >=1 pixel in "
        "total, or a refusal/limit case. Distinct by construction.")
EXTRA_LEGS = 'every other case writes into an output path that already holds the merge of other inputs.'
BOUNDS = {"quick": "k<=2 all sequences + 120 multisets of 3, mergebuf {1,2,5,1e6}; agg/column sweep on k<=2",
          "thorough": "all 512 sequences of 3 x mergebuf {1,2,5,1e6}; all 625 sequences of 4 over a 5-element sub-pool x mergebuf {1,3}; agg/column sweep on k<=3 multisets; square + variable with k<=3"}
ASSUMPTIONS = ["values are small integers / dyadic rationals so every aggregate is exact; 'mean' only on the float column",
               "overflow: the call may raise, or the stored value must be the exact aggregate"]
EXPECT_CLASSES = {"*": ["merge:k1", "merge:k2", "merge:k3", "nest", "refuse", "limit"]}

N = 4


def pool_cells(symm):
    up = alpha.cells(N, True)
    allc = alpha.cells(N, symm)
    return [
        [],
        [(0, 0)],
        [c for c in allc if c[0] == 0],
        [(i, i) for i in range(N)],
        [c for c in allc if (c[0] + c[1]) % 2 == 0 and c[0] != c[1]],
        [c for c in allc if (c[0] + c[1]) % 2 == 1],
        [(0, 1), (1, 3), (2, 2), (3, 3)] + ([] if symm else [(3, 0), (2, 1)]),
        [(0, 1), (1, 3), (2, 2), (3, 3)] + ([] if symm else [(3, 0), (2, 1)]),
        # (8, 9) supports whose leading rows are empty: the first merge epochs have nothing to merge in ANY input
        [(1, 1), (1, 2), (1, 3), (2, 3)],
        [(2, 2), (2, 3), (3, 3)],
    ]


def pool_pix(q, symm):
    cells = pool_cells(symm)[q]
    return fx.pixvals(cells, N, scale=(q + 1), shift=q * 100)


def pool_uri(q, symm, tab):
    table = fx.TABLE_F if tab == "F" else ((1, 3), (2, 2))
    return fx.make(("c07", q, symm, tab), alpha.table_bins(table, "chr"), pool_pix(q, symm), symm=symm)


AGGS = [  # (columns, agg dict or None)
    (["count"], None), (["count", "score"], None), (["score"], None), (["count"], {"count": "max"}), (["count"], {"count": "min"}),
    (["score"], {"score": "mean"}), (["count", "score"], {"count": "min", "score": "max"}),
    # aggregates that do NOT return a single value unchanged (a pixel held by one input only must still be aggregated)
    (["count"], {"count": "count"}), (["count"], {"count": "nunique"}), (["count"], {"count": "CALLABLE:sum+1000"}),
]


def units(tier):
    th = tier == "thorough"
    seqs = [list(s) for k in (1, 2) for s in itertools.product(range(8), repeat=k)]
    tri = [list(s) for s in (itertools.product(range(8), repeat=3) if th else itertools.combinations_with_replacement(range(8), 3))]
    for s in seqs + tri:
        yield {"leg": "merge", "seq": s, "symm": True, "tab": "F", "bufs": [1, 2, 5, 10 ** 6], "aggs": [1]}
    sweep = seqs + ([list(s) for s in itertools.combinations_with_replacement(range(8), 3)] if th else [])
    for s in sweep:
        yield {"leg": "merge", "seq": s, "symm": True, "tab": "F", "bufs": [1, 10 ** 6], "aggs": [0, 2, 3, 4, 5, 6, 7, 8, 9]}
    for s in seqs + (tri if th else []):
        yield {"leg": "merge", "seq": s, "symm": False, "tab": "F", "bufs": [1, 10 ** 6], "aggs": [1]}
        yield {"leg": "merge", "seq": s, "symm": True, "tab": "V", "bufs": [2], "aggs": [1]}
    # inputs that ALL start with empty rows (alone, with each other, with a support that has row 0), every small buffer
    for k in (1, 2, 3):
        for s3 in itertools.product([8, 9, 4], repeat=k):
            if set(s3) != {4}:
                yield {"leg": "merge", "seq": list(s3), "symm": True, "tab": "F", "bufs": [1, 2, 3, 10 ** 6], "aggs": [1]}
    if th:
        # every sequence of FOUR inputs over a 5-element sub-pool (empty, one pixel, two disjoint supports, identical support)
        for s4 in itertools.product([0, 1, 4, 5, 7], repeat=4):
            yield {"leg": "merge", "seq": list(s4), "symm": True, "tab": "F", "bufs": [1, 3], "aggs": [1]}
    for t in itertools.product([1, 3, 4, 6], repeat=3):
        yield {"leg": "nest", "tri": list(t)}
    for a in range(9):
        yield {"leg": "refuse", "a": a}
    for dt in ("int32", "uint16"):
        yield {"leg": "limit", "dtype": dt}
    yield {"leg": "limit-cross"}
    yield {"leg": "mixed-dtype"}
    yield {"leg": "cli"}


def _merge_case(R, unit, only):
    import cooler
    seq, symm, tab = unit["seq"], unit["symm"], unit["tab"]
    uris = [pool_uri(q, symm, tab) for q in seq]
    pix = [pool_pix(q, symm) for q in seq]
    R.add("states")
    R.add("traces")
    kk = 0
    for ai in unit["aggs"]:
        cols, agg = AGGS[ai]
        for buf in unit["bufs"]:
            kk += 1
            inner = {"agg": ai, "mergebuf": buf}
            if only is not None and only != inner:
                continue
            R.order = (R.order[0], kk)
            nt = len(seq) >= 2 and any(pix)
            R.ev(1, 1 if nt else 0)
            R.add("transitions")
            R.cls("merge:k%d" % min(len(seq), 3))
            want = {}
            for c in cols:
                f = (agg or {}).get(c, "sum").replace("CALLABLE:", "")
                m = models.ref_merge([{k: v[c] for k, v in p.items()} for p in pix], f)
                for k, v in m.items():
                    want.setdefault(k, {})[c] = v
            out = scratch.fresh()
            try:
                try:
                    aggarg = None
                    if agg:
                        aggarg = {c: ((lambda x: x.sum() + 1000) if f == "CALLABLE:sum+1000" else f) for c, f in agg.items()}
                    if kk % 2 == 0:
                        # every other case: the output path already holds the merge of OTHER inputs (a previous run's result)
                        R.cls("merge:output-path-already-holds-a-cooler")
                        cooler.merge_coolers(out, [pool_uri((seq[0] + 3) % 8, symm, tab), pool_uri((seq[0] + 5) % 8, symm, tab)], mergebuf=buf, columns=list(cols))
                    cooler.merge_coolers(out, uris, mergebuf=buf, columns=list(cols), agg=aggarg)
                except Exception as e:
                    R.mismatch("merge-raises:" + type(e).__name__, inner, f"{e!s:.300}")
                    continue
                got, rd = fx.read(out)
                msg = fx.same_values(got, want, cols)
                if msg:
                    R.mismatch("merged-pixels!=aggregate", inner, msg)
                if "count" in cols and (agg or {}).get("count", "sum") == "sum":
                    tot = sum(v["count"] for p in pix for v in p.values())
                    if rd["attrs"].get("sum") != tot:
                        R.mismatch("sum-attr!=sum-of-input-totals", inner, f"sum={rd['attrs'].get('sum')} want={tot}")
                v = h5ref.validate(out)
                if v:
                    R.mismatch("V:" + v[0], inner, f"{v}")
                if rd["attrs"].get("storage-mode") != ("symmetric-upper" if symm else "square"):
                    R.mismatch("storage-mode-not-propagated", inner, str(rd["attrs"].get("storage-mode")))
                R.outcome(sorted((k, tuple(sorted(v.items()))) for k, v in got.items()))
            finally:
                scratch.rm(out)


def _nest(R, tri, only):
    import cooler
    a, b, c = [pool_uri(q, True, "F") for q in tri]
    pa, pb, pc = [pool_pix(q, True) for q in tri]
    d = scratch.sub(f"c07n{os.getpid()}")
    R.add("states")
    R.add("traces")
    R.ev(1, 1)
    R.add("transitions", 5)
    R.cls("nest")
    try:
        cols = ["count", "score"]
        ab, bc, l, r, f = [os.path.join(d, x + ".cool") for x in ("ab", "bc", "l", "r", "f")]
        cooler.merge_coolers(ab, [a, b], mergebuf=2, columns=cols)
        cooler.merge_coolers(bc + "::/deep/er", [b, c], mergebuf=3, columns=cols)
        cooler.merge_coolers(l, [ab, c], mergebuf=1, columns=cols)
        cooler.merge_coolers(r, [a, bc + "::/deep/er"], mergebuf=10 ** 6, columns=cols)
        cooler.merge_coolers(f, [a, b, c], mergebuf=2, columns=cols)
        want = {}
        for col in cols:
            for k, v in models.ref_merge([{k: v[col] for k, v in p.items()} for p in (pa, pb, pc)]).items():
                want.setdefault(k, {})[col] = v
        for name, path in (("(ab)c", l), ("a(bc)", r), ("abc", f)):
            got, rd = fx.read(path)
            msg = fx.same_values(got, want, cols)
            if msg:
                R.mismatch("nested-merge!=aggregate:" + name, None, msg)
            v = h5ref.validate(path)
            if v:
                R.mismatch("V:" + v[0], None, f"{name} {v}")
    except Exception as e:
        R.mismatch("nest-raises:" + type(e).__name__, None, f"{e!s:.300}")
    finally:
        scratch.rm(d)


INCOMPAT = [
    ("base", [("a", 0, 2), ("a", 2, 4), ("b", 0, 2), ("b", 2, 4)], True),
    ("other-length", [("a", 0, 2), ("a", 2, 4), ("b", 0, 2), ("b", 2, 3)], True),
    ("other-name", [("a", 0, 2), ("a", 2, 4), ("c", 0, 2), ("c", 2, 4)], True),
    ("other-resolution", [("a", 0, 1), ("a", 1, 2), ("a", 2, 3), ("a", 3, 4), ("b", 0, 1), ("b", 1, 2), ("b", 2, 3), ("b", 3, 4)], True),
    ("variable", [("a", 0, 1), ("a", 1, 4), ("b", 0, 3), ("b", 3, 4)], True),
    ("variable-other-edge", [("a", 0, 3), ("a", 3, 4), ("b", 0, 3), ("b", 3, 4)], True),
    ("square", [("a", 0, 2), ("a", 2, 4), ("b", 0, 2), ("b", 2, 4)], False),
    ("fewer-chroms", [("a", 0, 2), ("a", 2, 4)], True),
    ("chrom-order", [("b", 0, 2), ("b", 2, 4), ("a", 0, 2), ("a", 2, 4)], True),
]


def _refuse(R, a, only):
    import cooler
    uris = []
    for name, bins, symm in INCOMPAT:
        n = len(bins)
        uris.append(fx.make(("c07inc", name), bins, fx.pixvals([(0, 0), (0, 1), (n - 1, n - 1)], n), symm=symm))
    R.add("states")
    R.add("traces")
    for b in range(len(INCOMPAT)):
        if a == b:
            continue
        for k3 in (False, True):
            inner = {"a": INCOMPAT[a][0], "b": INCOMPAT[b][0], "three": k3}
            if only is not None and only != inner:
                continue
            R.order = (R.order[0], b * 2 + k3)
            R.ev(1, 1)
            R.add("transitions")
            R.cls("refuse")
            out = scratch.fresh()
            try:
                cooler.merge_coolers(out, [uris[a], uris[b]] + ([uris[a]] if k3 else []), mergebuf=10 ** 6)
                R.mismatch("incompatible-inputs-merged", inner, f"{INCOMPAT[a][0]} + {INCOMPAT[b][0]} accepted")
            except Exception:
                pass
            finally:
                scratch.rm(out)


def _limit_cross(R, only):
    """output dtype requested explicitly and different from the input dtype: same width other signedness, wider, narrower"""
    import cooler
    bins = alpha.table_bins(fx.TABLE_F, "abc")
    R.add("states")
    R.add("traces")
    kk = 0
    cases = [("uint32", "int32", (2 ** 31 - 5, 10)), ("uint32", "int32", (2 ** 31 - 5, 4)), ("int32", "uint32", (-7, 3)), ("int32", "uint32", (-7, 9)),
             ("int32", "uint64", (-1, 0)), ("int64", "int32", (2 ** 31, 0)), ("int64", "int32", (2 ** 31 - 1, 0)), ("uint16", "int16", (2 ** 15 - 1, 1)),
             ("int64", "uint8", (200, 55)), ("int64", "uint8", (200, 56)), ("uint8", "int8", (100, 27)), ("uint8", "int8", (100, 28))]
    for (din, dout, parts) in cases:
        for buf in (1, 10 ** 6):
            kk += 1
            inner = {"in": din, "out": dout, "parts": list(parts), "mergebuf": buf}
            if only is not None and only != inner:
                continue
            R.order = (R.order[0], kk)
            R.ev(1, 1)
            R.add("transitions")
            R.cls("limit")
            total = sum(parts)
            info = np.iinfo(np.dtype(dout))
            fits = info.min <= total <= info.max
            uris = []
            for q, v in enumerate(parts):
                pix = {(0, 1): {"count": v}, (1, 1): {"count": 1}} if v else {(1, 1): {"count": 1}}
                uris.append(fx.make(("c07limx", din, v), bins, pix, cols=("count",), count_dtype=np.dtype(din)))
            out = scratch.fresh()
            try:
                try:
                    cooler.merge_coolers(out, uris, mergebuf=buf, dtypes={"count": np.dtype(dout)})
                except Exception:
                    R.cls("limit:raised")
                    if fits:
                        R.mismatch("fitting-aggregate-refused", inner, f"total={total} fits {dout}")
                    continue
                got, rd = fx.read(out)
                g = got.get((0, 1), {}).get("count")
                if g != total:
                    R.mismatch("stored-value-silently-differs-from-aggregate", inner, f"stored={g} exact={total} dtype={rd['dtypes'].get('count')} sum-attr={rd['attrs'].get('sum')}")
            finally:
                scratch.rm(out)


def _mixed(R, only):
    """inputs whose value column has DIFFERENT dtypes (int32, int64, uint8, float32, float64 with fractional values), every ordered
    pair and some triples, no explicit output dtype: the stored values must be the exact aggregates whatever the order"""
    import cooler
    bins = alpha.table_bins(fx.TABLE_F, "abc")
    kinds = [("int32", 0), ("int64", 0), ("uint8", 0), ("float64", 0.25), ("float32", 0.5)]
    R.add("states")
    R.add("traces")
    srcs = []
    for q, (dt, frac) in enumerate(kinds):
        pix = {(0, 1): {"count": 3 + q + frac}, (1, 1): {"count": 1 + frac}, (q % 4, 3): {"count": 7 + frac}}
        srcs.append((fx.make(("c07mix", dt), bins, pix, cols=("count",), count_dtype=np.dtype(dt)), pix))
    kk = 0
    seqs = [list(s) for s in itertools.permutations(range(len(kinds)), 2)] + [[0, 3, 1], [3, 0, 4], [2, 4, 0], [4, 2, 3]]
    for seq in seqs:
        for buf in (1, 10 ** 6):
            kk += 1
            inner = {"dtypes": [kinds[q][0] for q in seq], "mergebuf": buf}
            if only is not None and only != inner:
                continue
            R.order = (R.order[0], kk)
            R.ev(1, 1)
            R.add("transitions")
            R.cls("mixed-dtype")
            want = models.ref_merge([{k: v["count"] for k, v in srcs[q][1].items()} for q in seq])
            out = scratch.fresh()
            try:
                try:
                    cooler.merge_coolers(out, [srcs[q][0] for q in seq], mergebuf=buf)
                except Exception as e:
                    R.mismatch("merge-raises:" + type(e).__name__, inner, f"{e!s:.200}")
                    continue
                got, rd = fx.read(out)
                if {k: v["count"] for k, v in got.items()} != want:
                    R.mismatch("stored-value-silently-differs-from-aggregate", inner, f"got={got} want={want} dtype={rd['dtypes'].get('count')}")
            finally:
                scratch.rm(out)


def _limit(R, dtname, only):
    import cooler
    dt = np.dtype(dtname)
    mx = int(np.iinfo(dt).max)
    bins = alpha.table_bins(fx.TABLE_F, "abc")
    R.add("states")
    R.add("traces")
    kk = 0
    for total, parts in ((mx, (mx - 5, 5)), (mx + 1, (mx - 5, 6)), (mx, (mx, 0)), (2 * mx, (mx, mx)), (mx + 1, (mx // 2 + 1, mx // 2, 1))):
        for buf in (1, 10 ** 6):
            kk += 1
            inner = {"dtype": dtname, "parts": list(parts), "mergebuf": buf}
            if only is not None and only != inner:
                continue
            R.order = (R.order[0], kk)
            R.ev(1, 1)
            R.add("transitions")
            R.cls("limit")
            uris = []
            for q, v in enumerate(parts):
                pix = {(0, 1): {"count": v}, (1, 1): {"count": 1}} if v else {(1, 1): {"count": 1}}
                uris.append(fx.make(("c07lim", dtname, v), bins, pix, cols=("count",), count_dtype=dt))
            out = scratch.fresh()
            try:
                try:
                    cooler.merge_coolers(out, uris, mergebuf=buf)
                except Exception:
                    R.cls("limit:raised")
                    if total <= mx:
                        R.mismatch("fitting-aggregate-refused", inner, f"total={total} max={mx}")
                    continue
                got, rd = fx.read(out)
                g = got.get((0, 1), {}).get("count")
                if g != total:
                    R.mismatch("stored-value-silently-differs-from-aggregate", inner,
                               f"stored={g} exact={total} dtype={rd['dtypes'].get('count')} sum-attr={rd['attrs'].get('sum')}")
                elif rd["attrs"].get("sum") != total + len(parts):
                    R.mismatch("sum-attr!=sum-of-input-totals", inner, f"{rd['attrs'].get('sum')} vs {total + len(parts)}")
            finally:
                scratch.rm(out)


def _cli(R, only):
    """`cooler merge` CLI on a few sequences (same oracle)"""
    R.add("states")
    R.add("traces")
    for kk, seq in enumerate(([1, 2], [6, 7, 3], [0, 5], [4])):
        inner = {"seq": seq}
        if only is not None and only != inner:
            continue
        R.order = (R.order[0], kk)
        R.ev(1, 1)
        R.add("transitions")
        R.cls("merge-cli")
        uris = [pool_uri(q, True, "F") for q in seq]
        out = scratch.fresh()
        try:
            code, so, exc = build.cli(["merge", "-c", 3, out] + uris)
            if code != 0 or exc is not None:
                R.mismatch("merge-cli-fails", inner, f"code={code} exc={exc!r}")
                continue
            want = models.ref_merge([{k: v["count"] for k, v in pool_pix(q, True).items()} for q in seq])
            got, rd = fx.read(out)
            if {k: v["count"] for k, v in got.items()} != want:
                R.mismatch("merge-cli!=aggregate", inner, f"got={got} want={want}")
        finally:
            scratch.rm(out)
        # --field: columns, aggregates and dtypes requested on the command line
        for fields, wantspec in (([("count", "agg=max")], {"count": "max"}), ([("score", "dtype=float64")], {"score": "sum"}),
                                 ([("count", "dtype=float64,agg=min"), ("score", "agg=max")], {"count": "min", "score": "max"})):
            inner2 = {"seq": seq, "fields": [f"{c}:{o}" for c, o in fields]}
            if only is not None and only != inner2:
                continue
            R.ev(1, 1)
            R.add("transitions")
            R.cls("merge-cli:--field")
            out = scratch.fresh()
            try:
                args = ["merge", "-c", 2]
                for c, o in fields:
                    args += ["--field", f"{c}:{o}"]
                code, so, exc = build.cli(args + [out] + uris)
                if code != 0 or exc is not None:
                    R.mismatch("merge-cli-fails", inner2, f"code={code} exc={exc!r}")
                    continue
                import cooler
                px = cooler.Cooler(out).pixels()[:]
                for c, a in wantspec.items():
                    want = models.ref_merge([{k: v[c] for k, v in pool_pix(q, True).items()} for q in seq], a)
                    got = {(int(i), int(j)): v for i, j, v in zip(px["bin1_id"], px["bin2_id"], px[c].tolist())} if c in px.columns else None
                    if got != want:
                        R.mismatch("merge-cli --field!=requested-aggregate", {**inner2, "column": c}, f"got={got} want={want}")
                    elif any(o.startswith("dtype=float64") for cc, o in fields if cc == c) and px[c].dtype != np.float64:
                        R.mismatch("merge-cli --field dtype not honoured", {**inner2, "column": c}, str(px[c].dtype))
            finally:
                scratch.rm(out)


def run(unit, R, tier, only=None):
    leg = unit["leg"]
    if leg == "merge":
        _merge_case(R, unit, only)
        if unit["seq"] in ([6, 7], [2, 3, 5]):
            R.sample({"leg": leg, "inputs": [sorted(pool_cells(unit["symm"])[q]) for q in unit["seq"]], "mergebuf": unit["bufs"],
                      "columns/agg": [AGGS[a] for a in unit["aggs"]], "symm": unit["symm"], "table": unit["tab"]})
    elif leg == "nest":
        _nest(R, unit["tri"], only)
    elif leg == "refuse":
        _refuse(R, unit["a"], only)
    elif leg == "limit":
        _limit(R, unit["dtype"], only)
    elif leg == "limit-cross":
        _limit_cross(R, only)
    elif leg == "mixed-dtype":
        _mixed(R, only)
    elif leg == "cli":
        _cli(R, only)
    else:
        raise ValueError(leg)


def classify(m):
    """F10: merging coolers that are ALL empty raises (pd.concat of nothing) instead of giving an empty cooler.
    F11: an integer aggregate exceeding the count dtype is clamped silently on the HDF5 write."""
    u = m["case"]["unit"]
    if u.get("leg") == "merge" and m["clause"] == "merge-raises:ValueError" and set(u["seq"]) == {0} and "No objects to concatenate" in m["detail"]:
        return "F10"
    if u.get("leg") == "limit" and m["clause"] == "stored-value-silently-differs-from-aggregate":
        inner = m["case"]["inner"]
        mx = int(np.iinfo(np.dtype(inner["dtype"])).max)
        if sum(inner["parts"]) > mx and f"stored={mx} " in m["detail"]:
            return "F11"
    return None
