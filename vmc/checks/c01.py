"""C01 — create -> read round trip returns exactly the matrix that was stored (E1)."""
from __future__ import annotations

import itertools
import json

import numpy as np
import pandas as pd

from vmc import alpha, build, h5ref
from vmc.core import scratch

ID = "C01"
LEVEL = "model_checking"
RULE = ("grid leg: representative bin tables (one per class) with n<=4 bins x EVERY subset of the upper triangle (symmetric) / "
        "full grid (square, n<=3; structured family for n=4) as stored matrix; forms leg: base points with m<=5 pixels x every row "
        "permutation of a data frame, dict input, every composition into ordered chunks with an empty chunk at every gap, "
        "chunks as frame or dict; array leg: dense-array loader over every upper pattern n<=3 and structured n=4..6 x chunksize "
        "1..n+1 x garbage below the diagonal; storage leg: count dtype x extra columns x HDF5 filter options; meta leg: JSON "
        "documents x assembly names; samepath leg: every stored-cell subset (ordered so that equal sizes are adjacent) created one after the "
        "other at the SAME URI in one process. Oracle: the input itself (pixels()[:] lists exactly the input records once each in order; "
        "matrix(balance=False) dense and sparse == symmetric completion / stored matrix; info returns metadata and assembly), "
        "plus schema validator V on every file. Non-trivial: >=1 pixel stored. Distinct by construction.")
EXTRA_LEGS = 'valuelimits: values at and one beyond the maximum of the stored dtype given in wider / unsigned input columns (stored exactly or refused), three routes; idtypes: bin-id columns of every integer dtype on tables just beyond the point where bin1*n_bins+bin2 leaves the dtype (13 bins for int8 ... 65,600 for uint32), rows sorted / reversed / dict / chunks / reversed chunks with ensure_sorted through the one- and two-pass route, values of both signs; binsform: the bin table handed over with other row labels, coordinate dtypes, chromosome-column types and extra columns; million: one 1,051,975-pixel matrix read back around record 1e6.'
BOUNDS = {"quick": "grid: BTrep(3,4) tables, all upper patterns n<=4 on 2 tables per n (others: structured), all square patterns n<=3 on 1 table per n; forms: 16 base points",
          "thorough": "grid: all upper patterns n<=4 on every BTrep(3,4) table, all square n<=3 on every table, structured n=5 on every BT(3,5) class; forms: 40 base points"}
ASSUMPTIONS = ["values are small integers / dyadic rationals, exact in every dtype used; dtype identity of what comes back is not compared",
               "input pixel records are valid (in range, upper-triangular in symmetric mode, no duplicates)"]
EXPECT_CLASSES = {"*": ["mode:symm", "mode:square", "form:perm", "form:chunks", "form:dict", "form:labels", "array", "storage", "meta"]}

PATS = 64


def _tables(nmax):
    return [t for t in alpha.bt_rep(3, nmax) if alpha.table_nbins(t) <= nmax]


def units(tier):
    th = tier == "thorough"
    tabs = _tables(4)
    seen_n = {}
    for ti, t in enumerate(tabs):
        n = alpha.table_nbins(t)
        seen_n[n] = seen_n.get(n, 0) + 1
        full_symm = th or seen_n[n] <= 2 or len(t) == 3
        full_sq = (th or seen_n[n] <= 1) and n <= 3
        for symm in (True, False):
            if (symm and full_symm) or (not symm and full_sq):
                N = alpha.npatterns(n, symm)
                for lo in range(0, N, PATS):
                    yield {"leg": "grid", "t": ti, "symm": symm, "lo": lo, "hi": min(N, lo + PATS)}
            else:
                yield {"leg": "grid-s", "t": ti, "symm": symm}
    if th:
        t5 = [t for t in alpha.bt_rep(3, 5) if alpha.table_nbins(t) == 5]
        for k in range(len(t5)):
            for symm in (True, False):
                yield {"leg": "grid-s5", "k": k, "symm": symm}
    for b in range(40 if th else 16):
        yield {"leg": "forms", "b": b}
    # histories: many different matrices written one after the other to the SAME path in one process (state carried between
    # creations - caches, leftovers of the previous collection - must not leak into what is read back)
    for n, symm in ((3, True), (2, False), (3, False) if th else (2, True)):
        for dest in ("root", "group"):
            yield {"leg": "samepath", "n": n, "symm": symm, "dest": dest}
    for n in (1, 2, 3):
        yield {"leg": "array", "n": n, "fam": "all"}
    for n in (4, 5, 6):
        yield {"leg": "array", "n": n, "fam": "structured"}
    for b in range(5):
        yield {"leg": "storage", "b": b}
    for b in range(2):
        yield {"leg": "meta", "b": b}
    yield {"leg": "meta-cli"}
    # the bin table handed over in other forms (row labels, coordinate dtypes, chromosome column types, extra columns of several dtypes)
    for b in range(0, 40, 5):
        yield {"leg": "binsform", "b": b}
    # one stored matrix with more than 1,000,000 pixels (1450 bins, dense upper triangle; the library builds its row index in blocks of
    # 1e6 records): the rows around record 1,000,000 and both ends read back through matrix() windows and the pixel table
    yield {"leg": "million"}
    # values at and just beyond what the stored column can hold, given in a wider or an unsigned column: stored exactly or refused
    yield {"leg": "valuelimits"}
    # bin-id columns of every integer dtype on tables just large enough that bin1*n_bins+bin2 leaves the dtype (anything computed
    # from the ids in their own dtype wraps there), rows given sorted / reversed / as a dict; count values of both signs
    for dt, n in (("int8", 13), ("uint8", 17), ("int16", 190), ("uint16", 260), ("int32", 46400), ("uint32", 65600), ("int64", 13), ("uint64", 13)):
        for symm in (True, False):
            yield {"leg": "idtypes", "dtype": dt, "n": n, "symm": symm}


# ---- shared read-back oracle ----------------------------------------------------------------
def readback(R, inner, path, bins, pix, symm, cols=("count",), uri=None):
    """pix: {(i,j): {col: v}}"""
    import cooler
    n = len(bins)
    keys = sorted(pix)
    try:
        clr = cooler.Cooler(uri or path)
        df = clr.pixels()[:]
        got = list(zip(df["bin1_id"].tolist(), df["bin2_id"].tolist()))
        if got != keys:
            R.mismatch("pixel-table!=input-records", inner, f"got={got} want={keys}")
            return False
        for c in cols:
            gv = df[c].tolist()
            wv = [pix[k][c] for k in keys]
            if gv != wv:
                R.mismatch("pixel-values!=input", inner, f"col={c} got={gv} want={wv}")
                return False
        if list(df.index) != list(range(len(keys))):
            R.mismatch("pixel-index", inner, f"{list(df.index)}")
        for c in cols:
            M = np.zeros((n, n), dtype=float)
            for (i, j) in keys:
                M[i, j] = pix[(i, j)][c]
                if symm:
                    M[j, i] = pix[(i, j)][c]
            A = clr.matrix(field=c, balance=False)[:]
            if A.shape != M.shape or not np.array_equal(np.asarray(A, dtype=float), M):
                R.mismatch("full-matrix(dense)!=completion", inner, f"col={c} got={np.asarray(A).tolist()} want={M.tolist()}")
                return False
            S = clr.matrix(field=c, balance=False, sparse=True)[:]
            if S.shape != M.shape or not np.array_equal(np.asarray(S.toarray(), dtype=float), M) or \
                    len(set(zip(S.row.tolist(), S.col.tolist()))) != S.nnz:
                R.mismatch("full-matrix(sparse)!=completion", inner, f"col={c} got={S.toarray().tolist()} want={M.tolist()}")
                return False
        bt = clr.bins()[:]
        if list(zip(bt["chrom"].astype(str), bt["start"], bt["end"])) != [tuple(b) for b in bins]:
            R.mismatch("bin-table!=input", inner, "")
        mode = clr.storage_mode
        if mode != ("symmetric-upper" if symm else "square"):
            R.mismatch("storage-mode", inner, mode)
        grp = "/" if uri is None else uri.split("::")[1]
        v = h5ref.validate(path, grp)
        if v:
            R.mismatch("V:" + v[0].split(":")[1], inner, f"{v}")
            return False
    except Exception as e:
        R.mismatch("read-raises:" + type(e).__name__, inner, f"{e!s:.300}")
        return False
    return True


def _mkpix(n, cells, cols=("count",)):
    out = {}
    for (i, j) in cells:
        v = alpha.value(n, i, j)
        out[(i, j)] = {c: (v if c == "count" else v + 0.5 if c == "score" else 1000 + v) for c in cols}
    return out


def _grid_one(R, table, symm, cells, inner, flavour="chr"):
    bins = alpha.table_bins(table, flavour)
    n = len(bins)
    pix = _mkpix(n, cells)
    p = scratch.fresh()
    R.ev(1, 1 if cells else 0)
    R.add("states")
    R.add("transitions", 4)
    R.add("traces")
    R.cls("mode:" + ("symm" if symm else "square"))
    try:
        try:
            build.create(p, bins, {k: v["count"] for k, v in pix.items()}, symm)
        except Exception as e:
            R.mismatch("create-raises:" + type(e).__name__, inner, f"{e!s:.300}")
            return
        readback(R, inner, p, bins, pix, symm)
    finally:
        scratch.rm(p)


# ---- input forms -----------------------------------------------------------------------------
def _base_points():
    """(table, symm, cells) with m <= 5 pixels, varied shapes; deterministic list of 40"""
    pts = []
    tabs = [((2, 2), (2,)), ((1, 2, 3),), ((3,), (3,), (3,), ), ((2, 2, 1), (2,)), ((1,), (2, 2)), ((2, 2, 2, 2),)]
    shapes = [
        [],
        [(0, 0)],
        [(0, 1), (1, 1)],
        [(0, 0), (0, 2), (1, 1)],
        [(0, 0), (0, 1), (1, 2), (2, 2)],
        [(0, 2), (1, 1), (1, 2), (2, 2)],
        [(0, 0), (0, 1), (0, 2), (1, 1), (2, 2)],
        [(0, 1), (0, 2), (1, 2), (2, 2), (1, 1)],
    ]
    sq_shapes = [
        [(1, 0)],
        [(0, 1), (1, 0), (2, 0)],
        [(0, 0), (1, 0), (1, 2), (2, 1)],
        [(2, 0), (2, 1), (2, 2), (0, 2), (1, 1)],
    ]
    for ti, t in enumerate(tabs):
        n = alpha.table_nbins(t)
        for si, sh in enumerate(shapes):
            if all(i < n and j < n for i, j in sh):
                pts.append((ti, si, (t, True, sorted(sh))))
        for si, sh in enumerate(sq_shapes):
            if all(i < n and j < n for i, j in sh):
                pts.append((ti, len(shapes) + si, (t, False, sorted(sh))))
    # diagonal order over (table, shape) so that any prefix of the list mixes all shape classes and tables:
    # the first 16 points hold shapes with 0..5 pixels in both storage modes
    pts.sort(key=lambda x: ((x[1] - 3 * x[0]) % 12, x[0]))
    return [x[2] for x in pts][:40]


def _forms(R, b, only):
    table, symm, cells = _base_points()[b]
    bins = alpha.table_bins(table, "chr")
    n = len(bins)
    cols = ("count", "score")
    pix = _mkpix(n, cells, cols)
    keys = sorted(pix)
    m = len(keys)
    bdf = build.bins_df(bins)
    R.sample({"leg": "forms", "table": [list(c) for c in table], "symm": symm, "cells": cells,
              "forms": "row permutations (m<=4), dict, all chunk compositions + empty chunk at every gap, frame|dict chunks"})

    def frame(rows):
        return pd.DataFrame({"bin1_id": np.array([k[0] for k in rows], dtype=np.int64),
                             "bin2_id": np.array([k[1] for k in rows], dtype=np.int64),
                             "count": np.array([pix[k]["count"] for k in rows], dtype=np.int64),
                             "score": np.array([pix[k]["score"] for k in rows], dtype=float)})

    def asdict(df):
        return {c: df[c].values for c in df.columns}

    k = 0

    def one(form, desc, make):
        nonlocal k
        k += 1
        inner = {"b": b, "form": form, "desc": desc}
        if only is not None and only != inner:
            return
        import cooler
        R.order = (R.order[0], k)
        R.ev(1, 1 if m else 0)
        R.add("states")
        R.add("transitions", 4)
        R.add("traces")
        R.cls("form:" + form)
        p = scratch.fresh()
        try:
            try:
                pixels, kw = make()
                cooler.create_cooler(p, bdf, pixels, columns=["count", "score"], dtypes={"score": float},
                                     symmetric_upper=symm, **kw)
            except Exception as e:
                R.mismatch("create-raises:" + type(e).__name__, inner, f"{e!s:.300}")
                return
            readback(R, inner, p, bins, pix, symm, cols)
        finally:
            scratch.rm(p)

    if m <= 4:
        for perm in itertools.permutations(range(m)):
            rows = [keys[q] for q in perm]
            one("perm", list(perm), lambda rows=rows: (frame(rows), {}))
    # row labels are the caller's business: all equal (a concat without ignore_index), decreasing, strings - whole frame and chunks
    if m:
        one("labels", "repeated", lambda: (frame(keys[::-1]).set_axis([7] * m), {}))
        one("labels", "decreasing", lambda: (frame(keys).set_axis(list(range(m, 0, -1))), {}))
        one("labels", "strings", lambda: (frame(keys).set_axis([f"r{q % 2}" for q in range(m)]), {}))
        one("labels", "repeated-chunks-unordered", lambda: (iter([frame(keys[m // 2:]).set_axis([3] * (m - m // 2)), frame(keys[:m // 2]).set_axis([3] * (m // 2))]),
                                                            {"ordered": False, "mergebuf": 2}))
        one("labels", "repeated-chunks-ordered", lambda: (iter([frame(keys[:m // 2]).set_axis([3] * (m // 2)), frame(keys[m // 2:]).set_axis([3] * (m - m // 2))]),
                                                          {"ordered": True}))
    one("dict", "sorted", lambda: (asdict(frame(keys)), {}))
    one("dict", "reversed", lambda: (asdict(frame(keys[::-1])), {}))
    for comp in alpha.compositions(m):
        for ch in alpha.with_empty_chunks(comp):
            for kind in ("frame", "dict"):
                def make(ch=ch, kind=kind):
                    parts = [frame(keys[lo:hi]) for lo, hi in ch]
                    if kind == "dict":
                        parts = [asdict(x) for x in parts]
                    return iter(parts), {"ordered": True}
                one("chunks", {"chunks": [list(x) for x in ch], "kind": kind}, make)
    # list (re-iterable) instead of iterator; generator function
    one("chunks-list", "one-per-record", lambda: ([frame([kk]) for kk in keys], {"ordered": True}))


# ---- dense array loader ----------------------------------------------------------------------
def _array(R, n, fam, only):
    import cooler
    from cooler.create import ArrayLoader
    table = ((2,) * ((n + 1) // 2),) + (((2,) * (n - (n + 1) // 2),) if n > 1 else ())
    bins = alpha.table_bins(table, "chr")
    bdf = build.bins_df(bins)
    pats = ([(p, alpha.pattern_cells(n, True, p)) for p in range(alpha.npatterns(n, True))] if fam == "all"
            else alpha.structured(n, True))
    k = 0
    for tag, cells in pats:
        pix = _mkpix(n, cells)
        for lower in ("zeros", "symmetric", "garbage"):
            A = np.zeros((n, n), dtype=np.int64)
            for (i, j), v in pix.items():
                A[i, j] = v["count"]
                if lower == "symmetric":
                    A[j, i] = v["count"]
            if lower == "garbage":
                for i in range(n):
                    for j in range(i):
                        A[i, j] = 500 + i * n + j
            for cs in range(1, n + 2):
                k += 1
                inner = {"n": n, "tag": tag, "lower": lower, "chunksize": cs}
                if only is not None and only != inner:
                    continue
                R.order = (R.order[0], k)
                R.ev(1, 1 if cells else 0)
                R.add("states")
                R.add("transitions", 4)
                R.add("traces")
                R.cls("array")
                p = scratch.fresh()
                try:
                    try:
                        loader = ArrayLoader(bdf, A, chunksize=cs)
                        cooler.create_cooler(p, bdf, loader, ordered=True)
                    except Exception as e:
                        R.mismatch("create-raises:" + type(e).__name__, inner, f"{e!s:.300}")
                        continue
                    if readback(R, inner, p, bins, pix, True) and lower == "garbage":
                        # the same loader object is a re-iterable input: a second creation from it gives the same cooler
                        try:
                            cooler.create_cooler(p + "::/again", bdf, loader, ordered=True, mode="a")
                            readback(R, {**inner, "use": "second creation from the same loader object"}, p, bins, pix, True, uri=p + "::/again")
                        except Exception as e:
                            R.mismatch("create-raises:" + type(e).__name__, {**inner, "use": "second"}, f"{e!s:.300}")
                finally:
                    scratch.rm(p)
    R.sample({"leg": "array", "n": n, "patterns": fam, "lower_triangle": ["zeros", "symmetric", "garbage"], "chunksize": f"1..{n + 1}"})


# ---- storage configuration ---------------------------------------------------------------------
H5OPTS = [None, {"compression": None, "shuffle": False}, {"compression": "gzip", "compression_opts": 1, "shuffle": False},
          {"compression": "lzf"}, {"fletcher32": True}, {"chunks": (1,)}]
COUNT_DTYPES = ["int32", "int64", "uint16", "float32", "float64"]
EXTRA = [(), ("score",), ("aux", "score")]


def _storage(R, b, only):
    import cooler
    table, symm, cells = [p for p in _base_points() if len(p[2]) >= 3][b * 3]
    bins = alpha.table_bins(table, "abc")
    n = len(bins)
    bdf = build.bins_df(bins)
    k = 0
    for cdt in COUNT_DTYPES:
        for extra in EXTRA:
            for oi, h5opts in enumerate(H5OPTS):
                k += 1
                inner = {"b": b, "count_dtype": cdt, "extra": list(extra), "h5opts": oi}
                if only is not None and only != inner:
                    continue
                R.order = (R.order[0], k)
                cols = ("count",) + tuple(extra)
                pix = _mkpix(n, cells, cols)
                if cdt.startswith("float"):
                    for kk in pix:
                        pix[kk]["count"] = pix[kk]["count"] + 0.25
                keys = sorted(pix)
                df = pd.DataFrame({"bin1_id": [x[0] for x in keys], "bin2_id": [x[1] for x in keys]})
                dtypes = {"count": np.dtype(cdt)}
                for c in cols:
                    df[c] = np.array([pix[x][c] for x in keys], dtype=(cdt if c == "count" else float if c == "score" else np.int64))
                if "score" in extra:
                    dtypes["score"] = np.dtype(float)
                if "aux" in extra:
                    dtypes["aux"] = np.dtype(np.int64)
                R.ev(1, 1)
                R.add("states")
                R.add("transitions", 4)
                R.add("traces")
                R.cls("storage")
                p = scratch.fresh()
                try:
                    try:
                        cooler.create_cooler(p, bdf, df, columns=list(cols), dtypes=dtypes, symmetric_upper=symm, h5opts=h5opts)
                    except Exception as e:
                        R.mismatch("create-raises:" + type(e).__name__, inner, f"{e!s:.300}")
                        continue
                    readback(R, inner, p, bins, pix, symm, cols)
                    # the same table as three chunks in arbitrary order through the two-pass route (fan-in 2): dtypes, extra columns
                    # and storage options belong to the result, not only to the direct route
                    if oi == 0 or (k % 3 == 0):
                        R.ev(1, 1)
                        R.add("transitions", 4)
                        R.cls("storage:unordered-two-pass")
                        inner2 = {**inner, "route": "unordered-two-pass"}
                        t = max(1, len(df) // 3)
                        try:
                            cooler.create_cooler(p, bdf, iter([df.iloc[2 * t:], df.iloc[:t], df.iloc[t:2 * t]]), columns=list(cols), dtypes=dtypes,
                                                 symmetric_upper=symm, h5opts=h5opts, ordered=False, max_merge=2, mergebuf=2)
                        except Exception as e:
                            R.mismatch("create-raises:" + type(e).__name__, inner2, f"{e!s:.300}")
                            continue
                        readback(R, inner2, p, bins, pix, symm, cols)
                finally:
                    scratch.rm(p)
    R.sample({"leg": "storage", "count_dtypes": COUNT_DTYPES, "extra": [list(e) for e in EXTRA], "h5opts": [repr(o) for o in H5OPTS]})


# ---- metadata ----------------------------------------------------------------------------------
METADATA = [None, {}, {"a": 1}, {"nested": {"list": [1, 2.5, "x", None, True, False], "d": {"e": {}}}}, {"uni": "Zürich ß 漢字"},
            [1, 2, 3], "a string", 42, 3.5, True, {"k": None}, {"date": "2020-01-01", "n": -0.0, "big": 2 ** 53}, [], {"": ""}]
ASSEMBLIES = [None, "hg19", "mm10", "unknown", "GRCh38.p13", "sacCer3 (S288C)", "Zß", "1", "null", "true", "[1]", "1e5", "\"q\"", "{}"]


def _meta(R, b, only):
    import cooler
    table, symm, cells = _base_points()[3 + 12 * b]
    bins = alpha.table_bins(table, "abc")
    n = len(bins)
    bdf = build.bins_df(bins)
    pix = _mkpix(n, cells)
    pdf = build.pix_df({k: v["count"] for k, v in pix.items()})
    k = 0
    for mi, md in enumerate(METADATA):
        for ai, asm in enumerate(ASSEMBLIES):
            for dest in ("root", "group", "unordered"):
                if dest in ("group", "unordered") and (mi + ai + (dest == "unordered")) % 3:
                    continue
                k += 1
                inner = {"b": b, "metadata": mi, "assembly": ai, "dest": dest}
                if only is not None and only != inner:
                    continue
                R.order = (R.order[0], k)
                R.ev(1, 1)
                R.add("states")
                R.add("transitions", 2)
                R.add("traces")
                R.cls("meta")
                p = scratch.fresh()
                uri = p + "::/x/y" if dest == "group" else p
                try:
                    try:
                        if dest == "unordered":
                            # the two-pass route: chunks in arbitrary order, small fan-in (metadata and assembly belong to the result)
                            half = len(pdf) // 2
                            cooler.create_cooler(uri, bdf, iter([pdf.iloc[half:], pdf.iloc[:half], pdf.iloc[0:0]]), metadata=md, assembly=asm,
                                                 symmetric_upper=symm, ordered=False, max_merge=2, mergebuf=1)
                        else:
                            cooler.create_cooler(uri, bdf, pdf, metadata=md, assembly=asm, symmetric_upper=symm)
                        info = cooler.Cooler(uri).info
                    except Exception as e:
                        R.mismatch("create-raises:" + type(e).__name__, inner, f"{e!s:.300}")
                        continue
                    want_md = {} if md is None else md
                    got_md = info.get("metadata")
                    if json.dumps(got_md, sort_keys=True) != json.dumps(want_md, sort_keys=True) or type(got_md) is not type(want_md):
                        R.mismatch("metadata-roundtrip", inner, f"got={got_md!r} want={want_md!r}")
                    want_asm = "unknown" if asm is None else asm
                    got_asm = info.get("genome-assembly")
                    if got_asm != want_asm or type(got_asm) is not str:
                        R.mismatch("assembly-roundtrip", inner, f"got={got_asm!r} want={want_asm!r}")
                    R.outcome((mi, repr(got_asm)))
                finally:
                    scratch.rm(p)
    R.sample({"leg": "meta", "metadata": [repr(m) for m in METADATA[:6]], "assemblies": ASSEMBLIES})


def _meta_cli(R, only):
    """--metadata <json file> and --assembly through `cooler load`, `cload pairs` and `cload tabix`"""
    import os
    import cooler
    import pysam
    bins = alpha.table_bins(((2, 2), (2,)), "chr")
    d = scratch.sub(f"c01mc{os.getpid()}")
    bed = os.path.join(d, "bins.bed")
    with open(bed, "w") as fh:
        for b in bins:
            fh.write("\t".join(str(x) for x in b) + "\n")
    coo = os.path.join(d, "in.coo")
    open(coo, "w").write("0\t0\t3\n0\t2\t5\n1\t1\t2\n")
    pairs = os.path.join(d, "in.pairs")
    open(pairs, "w").write("r1\tchr2\t0\tchr2\t1\nr2\tchr2\t2\tchr10\t0\nr3\tchr2\t3\tchr10\t1\n")
    txt = os.path.join(d, "t.txt")
    open(txt, "w").write("chr2\t0\t+\tchr2\t1\t-\nchr2\t2\t+\tchr10\t0\t-\nchr2\t3\t+\tchr10\t1\t-\n")
    gz = txt + ".gz"
    pysam.tabix_compress(txt, gz, force=True)
    pysam.tabix_index(gz, seq_col=0, start_col=1, end_col=1, zerobased=True, force=True)
    R.add("states")
    R.add("traces")
    kk = 0
    for mi, md in enumerate(METADATA[1:9]):
        mf = os.path.join(d, f"m{mi}.json")
        json.dump(md, open(mf, "w"))
        for asm in ("hg19", "Zß", None):
            for cmd in ("load", "cload-pairs", "cload-tabix"):
                kk += 1
                inner = {"cmd": cmd, "metadata": mi + 1, "assembly": asm}
                if only is not None and only != inner:
                    continue
                R.order = (R.order[0], kk)
                R.ev(1, 1)
                R.add("transitions", 2)
                R.cls("meta")
                R.cls("meta-cli:" + cmd)
                out = scratch.fresh()
                extra = ["--metadata", mf] + (["--assembly", asm] if asm else [])
                if cmd != "cload-tabix" and (mi + (asm is None)) % 2:
                    # HDF5 filter options given on the command line change how columns are stored, never what is read back
                    extra += ["--storage-options", ["compression=lzf", "compression=gzip,compression_opts=1,shuffle=True", "chunks=[2]"][mi % 3]]
                    R.cls("meta-cli:storage-options")
                if cmd == "load":
                    args = ["load", "-f", "coo", "--temp-dir", d] + extra + [bed, coo, out]
                elif cmd == "cload-pairs":
                    args = ["cload", "pairs", "--zero-based", "-c1", 2, "-p1", 3, "-c2", 4, "-p2", 5, "--temp-dir", d] + extra + [bed, pairs, out]
                else:
                    args = ["cload", "tabix", "--zero-based", "-c2", 4, "-p2", 5] + extra + [bed, gz, out]
                try:
                    code, so, exc = build.cli(args)
                    if code != 0 or exc is not None:
                        R.mismatch("create-raises:cli", inner, f"code={code} exc={exc!r:.200}")
                        continue
                    info = cooler.Cooler(out).info
                    if json.dumps(info.get("metadata"), sort_keys=True) != json.dumps(md, sort_keys=True):
                        R.mismatch("metadata-roundtrip", inner, f"got={info.get('metadata')!r} want={md!r}")
                    if info.get("genome-assembly") != (asm or "unknown"):
                        R.mismatch("assembly-roundtrip", inner, f"got={info.get('genome-assembly')!r} want={(asm or 'unknown')!r}")
                    px = cooler.Cooler(out).pixels()[:]
                    gotp = {(int(a), int(b)): int(c) for a, b, c in zip(px["bin1_id"], px["bin2_id"], px["count"])}
                    wantp = {(0, 0): 3, (0, 2): 5, (1, 1): 2} if cmd == "load" else {(0, 0): 1, (1, 2): 2}
                    if gotp != wantp or len(px) != len(wantp):
                        R.mismatch("pixels!=input", inner, f"got={gotp} want={wantp}")
                finally:
                    scratch.rm(out)
    scratch.rm(d)


def _samepath(R, unit, only):
    n, symm, dest = unit["n"], unit["symm"], unit["dest"]
    table = ((2,) * ((n + 1) // 2),) + (((2,) * (n - (n + 1) // 2),) if n > 1 else ())
    bins = alpha.table_bins(table, "chr")
    pats = sorted(range(alpha.npatterns(n, symm)), key=lambda p: (bin(p).count("1"), p))     # equal nnz next to each other
    if len(pats) > 128:
        pats = pats[::4]
    p = scratch.fresh()
    uri = p if dest == "root" else p + "::/grp/sub"
    R.sample({"leg": "samepath", "n": n, "symm": symm, "dest": dest, "sequence": "all stored-cell subsets ordered by (size, index), each created at the same URI"})
    try:
        for q, pat in enumerate(pats):
            inner = {"step": q, "pat": pat}
            if only is not None and only.get("step", -1) < q:
                break
            cells = alpha.pattern_cells(n, symm, pat)
            pix = _mkpix(n, cells)
            R.order = (R.order[0], q)
            R.ev(1, 1 if q else 0)
            R.add("states")
            R.add("transitions", 4)
            R.cls("form:samepath")
            R.cls("mode:" + ("symm" if symm else "square"))
            try:
                build.create(uri, bins, {k: v["count"] for k, v in pix.items()}, symm, mode="w" if (dest == "root" or q == 0) else "a")
            except Exception as e:
                R.mismatch("create-raises:" + type(e).__name__, inner, f"{e!s:.300}")
                break
            if not readback(R, inner, p, bins, pix, symm, uri=None if dest == "root" else uri):
                break
        R.add("traces")
    finally:
        scratch.rm(p)


def _binsform(R, b, only):
    import cooler
    table, symm, cells = _base_points()[b]
    bins = alpha.table_bins(table, "chr")
    names = alpha.NAMES["chr"][:len(table)]
    n = len(bins)
    bdf = build.bins_df(bins)
    pix = _mkpix(n, cells)
    forms = {
        "offset-labels": lambda: bdf.set_axis(list(range(10, 10 + n))),
        "gappy-labels": lambda: bdf.set_axis(list(range(0, 2 * n, 2))),
        "reversed-labels": lambda: bdf.set_axis(list(range(n - 1, -1, -1))),
        "repeated-labels": lambda: bdf.set_axis([0] * n),
        "string-labels": lambda: bdf.set_axis([f"r{q}" for q in range(n)]),
        "int32-coordinates": lambda: bdf.astype({"start": np.int32, "end": np.int32}),
        "uint16-coordinates": lambda: bdf.astype({"start": np.uint16, "end": np.uint16}),
        "object-chrom": lambda: bdf.assign(chrom=bdf["chrom"].astype(str).astype(object)),
        "unordered-categorical": lambda: bdf.assign(chrom=pd.Categorical(bdf["chrom"].astype(str), categories=names)),
        "extra-columns": lambda: bdf.assign(flag=[q % 2 == 0 for q in range(n)], gc=[0.125 * q - 0.5 for q in range(n)], k=np.arange(n, dtype=np.int8) - 2),
        "extra-column-between": lambda: bdf.assign(gc=[0.125 * q for q in range(n)])[["chrom", "gc", "start", "end"]],
    }
    for k, (form, mk) in enumerate(forms.items()):
        inner = {"b": b, "bins_form": form}
        if only is not None and only != inner:
            continue
        R.order = (R.order[0], k)
        R.ev(1, 1 if cells else 0)
        R.add("states")
        R.add("transitions", 4)
        R.add("traces")
        R.cls("binsform")
        p = scratch.fresh()
        try:
            bf = mk()
            before = bf.copy()
            try:
                cooler.create_cooler(p, bf, build.pix_df({kk: v["count"] for kk, v in pix.items()}), symmetric_upper=symm)
            except Exception as e:
                R.mismatch("create-raises:" + type(e).__name__, inner, f"{e!s:.300}")
                continue
            if not readback(R, inner, p, bins, pix, symm):
                continue
            bt = cooler.Cooler(p).bins()[:]
            for c in ("flag", "gc", "k"):
                if c in bf.columns and (c not in bt.columns or bt[c].tolist() != before[c].tolist()):
                    R.mismatch("extra-bin-column!=input", inner, f"{c}: {bt[c].tolist() if c in bt.columns else 'missing'} want {before[c].tolist()}")
        finally:
            scratch.rm(p)


def _valuelimits(R, only):
    import cooler
    bins = alpha.table_bins(((2, 2), (2,)), "chr")
    bdf = build.bins_df(bins)
    cases = []
    for indt, store, top in (("uint32", None, 2 ** 31 - 1), ("int64", None, 2 ** 31 - 1), ("uint64", "int64", 2 ** 63 - 1), ("uint16", "int16", 2 ** 15 - 1),
                             ("uint8", "int8", 127), ("int64", "uint16", 2 ** 16 - 1), ("uint64", "uint32", 2 ** 32 - 1), ("int32", "uint8", 255)):
        for delta in (0, 1):
            cases.append((indt, store, top + delta))
    for indt, store in (("int64", "uint16"), ("int32", "uint8"), ("int16", "uint32")):
        cases.append((indt, store, -1))                      # a negative value into an unsigned column
    R.add("states")
    R.add("traces")
    for k, (indt, store, val) in enumerate(cases):
        for route in ("frame", "chunks", "unordered"):
            inner = {"input_dtype": indt, "stored_dtype": store or "default(int32)", "value": val, "route": route}
            if only is not None and only != inner:
                continue
            R.order = (R.order[0], k)
            R.ev(1, 1)
            R.add("transitions")
            R.cls("valuelimits")
            info = np.iinfo(store or "int32")
            fits = info.min <= val <= info.max
            d = {"bin1_id": np.array([0, 0, 1], dtype=np.int64), "bin2_id": np.array([0, 2, 1], dtype=np.int64), "count": np.array([1, val, 3], dtype=indt)}
            kw = {"dtypes": {"count": np.dtype(store)}} if store else {}
            p = scratch.fresh()
            try:
                try:
                    if route == "frame":
                        cooler.create_cooler(p, bdf, pd.DataFrame(d), **kw)
                    elif route == "chunks":
                        cooler.create_cooler(p, bdf, iter([{c: v[:2] for c, v in d.items()}, {c: v[2:] for c, v in d.items()}]), ordered=True, **kw)
                    else:
                        cooler.create_cooler(p, bdf, iter([pd.DataFrame({c: v[2:] for c, v in d.items()}), pd.DataFrame({c: v[:2] for c, v in d.items()})]), ordered=False, mergebuf=2, **kw)
                    raised = None
                except Exception as e:
                    raised = e
                if raised is not None:
                    if fits:
                        R.mismatch("create-raises:" + type(raised).__name__, inner, f"value fits the stored dtype: {raised!s:.200}")
                    else:
                        R.cls("valuelimits:refused")
                    continue
                got = [int(x) for x in cooler.Cooler(p).pixels()[:]["count"].tolist()]
                if got != [1, val, 3]:
                    R.mismatch("pixel-values!=input", inner, f"stored {got} for input [1, {val}, 3] ({'fits' if fits else 'does not fit'} the stored dtype)")
            finally:
                scratch.rm(p)


def _million(R, only):
    import cooler
    n = 1450
    i, j = np.triu_indices(n)
    v = (1 + (i * 7 + j * 13) % 1000).astype(np.int32)
    bins = [("chr2", q * 10, (q + 1) * 10) for q in range(1000)] + [("chr10", q * 10, (q + 1) * 10) for q in range(450)]
    R.ev(1, 1)
    R.add("states")
    R.add("transitions", 8)
    R.add("traces")
    R.cls("million-pixels")
    p = scratch.fresh()
    try:
        step = 400000
        chunks = ({"bin1_id": i[a:a + step], "bin2_id": j[a:a + step], "count": v[a:a + step]} for a in range(0, len(i), step))
        try:
            cooler.create_cooler(p, build.bins_df(bins), chunks, ordered=True, h5opts={"compression": None, "shuffle": False})
        except Exception as e:
            R.mismatch("create-raises:" + type(e).__name__, {"n": n}, f"{e!s:.300}")
            return
        clr = cooler.Cooler(p)
        b = int(i[1000000])                       # the row that holds record 1,000,000
        val = lambda a, c: 1 + (min(a, c) * 7 + max(a, c) * 13) % 1000      # noqa: E731
        for (i0, i1, j0, j1) in ((b - 2, b + 3, 0, n), (0, n, b - 1, b + 2), (0, 3, 0, n), (n - 3, n, 0, n), (b - 1, b + 2, b - 1, b + 2)):
            inner = {"window": [i0, i1, j0, j1]}
            if only is not None and only != inner:
                continue
            A = np.asarray(clr.matrix(balance=False)[i0:i1, j0:j1], dtype=np.int64)
            W = np.array([[val(a, c) for c in range(j0, j1)] for a in range(i0, i1)], dtype=np.int64)
            if A.shape != W.shape or not np.array_equal(A, W):
                bad = np.argwhere(A != W)[:5].tolist() if A.shape == W.shape else "shape"
                R.mismatch("full-matrix(dense)!=completion", inner, f"{int((A != W).sum()) if A.shape == W.shape else '?'} cells differ, first at {bad}")
        if only is None:
            df = clr.pixels()[1000000 - 3:1000000 + 3]
            if df["bin1_id"].tolist() != i[999997:1000003].tolist() or df["bin2_id"].tolist() != j[999997:1000003].tolist() or df["count"].tolist() != v[999997:1000003].tolist():
                R.mismatch("pixel-table!=input-records", {"rows": "1e6-3 .. 1e6+3"}, f"{df.values.tolist()}")
            if int(clr.info["nnz"]) != len(i):
                R.mismatch("pixel-table!=input-records", {"nnz": int(clr.info["nnz"])}, f"want {len(i)}")
            vv = h5ref.validate(p, "/")
            if vv:
                R.mismatch("V:" + vv[0].split(":")[1], {"n": n}, f"{vv}")
    finally:
        scratch.rm(p)


def _idtypes(R, unit, only):
    import cooler
    dt, n, symm = unit["dtype"], unit["n"], unit["symm"]
    w = 3
    bins = [("chr2", i * w, (i + 1) * w) for i in range(n - 2)] + [("chr10", 0, w), ("chr10", w, 2 * w - 1)]
    bdf = build.bins_df(bins)
    cells = sorted({(0, 0), (0, 1), (0, n - 1), (1, 2), (1, n - 2), (n // 2, n // 2), (n // 2, n - 1), (n - 3, n - 2), (n - 2, n - 2), (n - 2, n - 1), (n - 1, n - 1)}
                   | ({(n - 1, 0), (n - 1, n - 2), (n // 2, 1), (2, 1)} if not symm else set()))
    for signed in (False, True):
        pix = {c: {"count": (alpha.value(7, c[0] % 7, c[1] % 7) + 1) * (-1 if signed and (c[0] + c[1]) % 2 else 1)} for c in cells}
        for form in ("frame-sorted", "frame-reversed", "dict-reversed", "chunks", "chunks-reversed+ensure_sorted", "unordered-reversed+ensure_sorted"):
            inner = {"signed": signed, "form": form}
            if only is not None and only != inner:
                continue
            keys = sorted(pix)
            if "reversed" in form:
                keys = keys[::-1]
            d = {"bin1_id": np.array([k[0] for k in keys], dtype=dt), "bin2_id": np.array([k[1] for k in keys], dtype=dt),
                 "count": np.array([pix[k]["count"] for k in keys], dtype=np.int32)}
            R.ev(1, 1)
            R.add("states")
            R.add("transitions", 3)
            R.add("traces")
            R.cls("idtypes:" + dt)
            p = scratch.fresh()
            try:
                try:
                    kw = {"ordered": True}
                    if form == "chunks":
                        h = len(keys) // 2
                        arg = iter([pd.DataFrame({c: v[:h] for c, v in d.items()}), pd.DataFrame({c: v[h:] for c, v in d.items()})])
                    elif form == "chunks-reversed+ensure_sorted":
                        # rows of each chunk in decreasing order, chunk ranges themselves in increasing order; sorting is requested
                        h = len(keys) // 2
                        arg = iter([pd.DataFrame({c: v[h:] for c, v in d.items()}), pd.DataFrame({c: v[:h] for c, v in d.items()})])
                        kw = {"ordered": True, "ensure_sorted": True}
                    elif form == "unordered-reversed+ensure_sorted":
                        h = len(keys) // 2
                        arg = iter([pd.DataFrame({c: v[:h] for c, v in d.items()}), pd.DataFrame({c: v[h:] for c, v in d.items()})])
                        kw = {"ordered": False, "ensure_sorted": True, "mergebuf": 2}
                    else:
                        arg = d if form.startswith("dict") else pd.DataFrame(d)
                    cooler.create_cooler(p, bdf, arg, symmetric_upper=symm, **kw)
                except Exception as e:
                    R.mismatch("create-raises:" + type(e).__name__, inner, f"{e!s:.300}")
                    continue
                if n <= 300:
                    readback(R, inner, p, bins, pix, symm)
                    continue
                # large tables: pixel table and sparse full matrix only (a dense 65600 x 65600 array is out of reach)
                try:
                    clr = cooler.Cooler(p)
                    df = clr.pixels()[:]
                    got = {(a, b): c for a, b, c in zip(df["bin1_id"].tolist(), df["bin2_id"].tolist(), df["count"].tolist())}
                    if list(zip(df["bin1_id"].tolist(), df["bin2_id"].tolist())) != sorted(pix) or got != {k: v["count"] for k, v in pix.items()}:
                        R.mismatch("pixel-table!=input-records", inner, f"got={sorted(got.items())[:12]} want={sorted((k, v['count']) for k, v in pix.items())[:12]}")
                        continue
                    S = clr.matrix(balance=False, sparse=True)[:]
                    gm = {(int(a), int(b)): int(c) for a, b, c in zip(S.row, S.col, S.data)}
                    wm = {}
                    for (i, j), v in pix.items():
                        wm[(i, j)] = v["count"]
                        if symm:
                            wm[(j, i)] = v["count"]
                    if gm != wm or S.nnz != len(wm):
                        R.mismatch("full-matrix(sparse)!=completion", inner, f"differences={sorted(set(gm.items()) ^ set(wm.items()))[:8]}")
                    for (i0, i1, j0, j1) in ((0, 3, n - 3, n), (n - 3, n, 0, 3), (n // 2, n // 2 + 1, 0, n)):
                        A = clr.matrix(balance=False)[i0:i1, j0:j1]
                        W = np.zeros((i1 - i0, j1 - j0))
                        for (i, j), v in wm.items():
                            if i0 <= i < i1 and j0 <= j < j1:
                                W[i - i0, j - j0] = v
                        if not np.array_equal(np.asarray(A, dtype=float), W):
                            R.mismatch("full-matrix(dense)!=completion", {**inner, "window": [i0, i1, j0, j1]}, f"got={np.asarray(A).tolist()} want={W.tolist()}")
                    v = h5ref.validate(p, "/")
                    if v:
                        R.mismatch("V:" + v[0].split(":")[1], inner, f"{v}")
                except Exception as e:
                    R.mismatch("read-raises:" + type(e).__name__, inner, f"{e!s:.300}")
            finally:
                scratch.rm(p)


def run(unit, R, tier, only=None):
    leg = unit["leg"]
    if leg == "idtypes":
        _idtypes(R, unit, only)
        return
    if leg == "valuelimits":
        _valuelimits(R, only)
        return
    if leg == "million":
        _million(R, only)
        return
    if leg == "binsform":
        _binsform(R, unit["b"], only)
        return
    if leg == "samepath":
        _samepath(R, unit, only)
        return
    if leg == "meta-cli":
        _meta_cli(R, only)
        return
    if leg == "grid":
        t = _tables(4)[unit["t"]]
        n = alpha.table_nbins(t)
        for pat in range(unit["lo"], unit["hi"]):
            inner = {"pat": pat}
            if only is not None and only != inner:
                continue
            R.order = (R.order[0], pat)
            _grid_one(R, t, unit["symm"], alpha.pattern_cells(n, unit["symm"], pat), inner)
        if unit["lo"] == 0:
            R.sample({"leg": "grid", "table": [list(c) for c in t], "symm": unit["symm"], "patterns": f"{unit['lo']}..{unit['hi']} of all subsets"})
    elif leg in ("grid-s", "grid-s5"):
        t = _tables(4)[unit["t"]] if leg == "grid-s" else [t for t in alpha.bt_rep(3, 5) if alpha.table_nbins(t) == 5][unit["k"]]
        n = alpha.table_nbins(t)
        for q, (name, cells) in enumerate(alpha.structured(n, unit["symm"])):
            inner = {"pat": name}
            if only is not None and only != inner:
                continue
            R.order = (R.order[0], q)
            _grid_one(R, t, unit["symm"], cells, inner, flavour="abc")
    elif leg == "forms":
        _forms(R, unit["b"], only)
    elif leg == "array":
        _array(R, unit["n"], unit["fam"], only)
    elif leg == "storage":
        _storage(R, unit["b"], only)
    elif leg == "meta":
        _meta(R, unit["b"], only)
    else:
        raise ValueError(leg)


def classify(m):
    """F16: an assembly name that happens to be a JSON literal comes back decoded (info() JSON-decodes
    every string attribute)."""
    if m["clause"] == "assembly-roundtrip":
        asm = ASSEMBLIES[m["case"]["inner"]["assembly"]]
        if asm is None:
            return None
        try:
            dec = json.loads(asm)
        except Exception:
            return None
        if f"got={dec!r} want={asm!r}" == m["detail"]:
            return "F16"
    return None
