"""C09 — every zoom level of a multires file equals direct coarsening of its base (E1 + E3)."""
from __future__ import annotations

import itertools
import os

import h5py
import numpy as np

from vmc import alpha, build, fixtures as fx, h5ref, models
from vmc.core import scratch
from vmc.seams import sched

ID = "C09"
TECHNIQUE = 'bounded exhaustive enumeration of all target-resolution subsets against a reference model + deviation-bounded schedule exploration through the Pool seam, on the real implementation'
LEVEL = "model_checking"
RULE = ("api leg: base cooler of resolution 1 (8+4 bp genome) x ALL 2^7 subsets of target resolutions {1,2,3,4,6,8,12}; base of "
        "resolution 2 x all 2^5 subsets of {2,3,4,6,12} (3 is not derivable: must raise); base sets {1,2}, {2,3}, {1,2,3} given as "
        "several URIs with mutually consistent and with independent data x target subsets; chunksize {1,3,1e6}; sched leg: nproc=2 "
        "under VirtualPool with <= B deviating pool.map batches + protocol monitors; cli leg: every spelling of the documented -r "
        "grammar (list, N, B, <res>N, <res>B, 4DN, upper/lower case), -i, --field. Oracle: listing == {/resolutions/r : r in targets "
        "u bases} once each, multires recognised, each base level reads identically to its source (bins incl. weights, pixels, "
        "indexes, attributes), each derived level == ref_coarsen(base, r/base) for a supplied base dividing r, V on every level. "
        "Non-trivial: >=1 derived level. Distinct by construction.")
EXTRA_LEGS = 'rerun: a second zoomify into an output path that already holds a multi-resolution file (other data, other targets, other base, source renamed / given a bin column / edited in place in between) must leave exactly what the last call asked for.'
BOUNDS = {"quick": "all subsets at chunksize 1e6, chunksize {1,3} on every 8th subset; schedule deviation bound 1; one injected I/O error at every h5py call of 3 zoomify runs",
          "thorough": "all subsets x chunksize {1,3,1e6}; 3 base contents; base 3 x all subsets of {3,6,9,12,4}; schedule deviation bound 2; abort leg as in the quick tier"}
ASSUMPTIONS = ["pixel value columns not requested via `columns` are not expected in the output (documented default: count only)",
               "with independent base data a derived level must equal the coarsening of SOME supplied base that divides it",
               "abort leg: the recognition clause is read both ways - what an interrupted run leaves behind is either not recognised as a multi-resolution file or is complete"]
EXPECT_CLASSES = {"*": ["zoom:ok", "zoom:refused", "multi-base", "sched", "cli", "abort", "abort:not-recognised-afterwards"]}

SIZES = [("chr2", 8), ("chr10", 4)]
TARGETS1 = [1, 2, 3, 4, 6, 8, 12]
TARGETS2 = [2, 3, 4, 6, 12]
TARGETS3 = [3, 6, 9, 12, 4]


def base_bins(res):
    return models.ref_binnify(SIZES, res)


def base_pix(res, content):
    bins = base_bins(res)
    n = len(bins)
    fam = dict(alpha.structured(n, True))
    return fx.pixvals(fam[content], n, scale=res)


def base_uri(res, content, weights=True, group="/"):
    import cooler
    key = ("c09", res, content, weights, group)
    bins = base_bins(res)
    uri = fx.make(key, bins, base_pix(res, content), group=group)
    if weights and ("w", key) not in fx._cache:
        path, _, grp = uri.partition("::")
        with h5py.File(path, "r+") as f:
            g = f[grp or "/"]
            if "weight" not in g["bins"]:
                w = np.array([0.5 + k / 8.0 for k in range(len(bins))])
                w[len(bins) // 2] = np.nan
                g["bins"].create_dataset("weight", data=w)
                g["bins"]["weight"].attrs["ignore_diags"] = 2
        fx._cache[("w", key)] = True
    return uri


def consistent_pix(res, content):
    """data at resolution `res` that IS the coarsening of the resolution-1 base"""
    if res == 1:
        return base_pix(1, content)
    _, m = models.ref_coarsen(base_bins(1), {k: v["count"] for k, v in base_pix(1, content).items()}, res)
    _, ms = models.ref_coarsen(base_bins(1), {k: v["score"] for k, v in base_pix(1, content).items()}, res)
    return {k: {"count": m[k], "score": ms[k]} for k in m}


def units(tier):
    th = tier == "thorough"
    contents = ["full", "checker", "off1"] if th else ["full"]
    for content in contents:
        for mask in range(1 << len(TARGETS1)):
            yield {"leg": "api", "base": 1, "mask": mask, "content": content}
        for mask in range(1 << len(TARGETS2)):
            yield {"leg": "api", "base": 2, "mask": mask, "content": content}
        if th:
            for mask in range(1 << len(TARGETS3)):
                yield {"leg": "api", "base": 3, "mask": mask, "content": content}
    for bases in ([1, 2], [2, 3], [1, 2, 3], [2, 1]):
        for consistent in (True, False):
            for tg in ([], [4], [6], [12], [3, 4], [2, 4, 6, 12], [4, 6, 8], [1, 2, 3], [9], [12, 6, 4]):
                yield {"leg": "multi", "bases": bases, "consistent": consistent, "targets": tg}
    for tg in ([2, 4], [2, 4, 8], [3, 6, 12], [12]):
        yield {"leg": "sched", "targets": tg}
    for k in range(6):
        yield {"leg": "cli", "k": k}
    # variable-width bases (their 'resolution' is a coarsening factor): three different tables with the same chromosome sizes and
    # bin counts zoomified one after the other in one process, in every order
    for perm in range(6):
        yield {"leg": "varseq", "perm": perm}
    for tg, cs in (([2, 4], 10 ** 6), ([2, 4], 3), ([4, 2, 8], 10 ** 6)):
        for part in range(6):
            yield {"leg": "abort", "targets": tg, "chunksize": cs, "part": part, "of": 6}
    # a second zoomify into an output path that already holds a multi-resolution file (other content / other base / other targets /
    # the source edited in place in between): the file must be what the LAST call asked for
    for k in range(5):
        yield {"leg": "rerun", "k": k}


def _varseq(R, unit, only):
    import cooler
    from vmc.checks.c08 import SEQVAR
    order = list(itertools.permutations(range(3)))[unit["perm"]]
    R.add("states")
    R.add("traces")
    for step, ti in enumerate(order):
        bins = alpha.table_bins(SEQVAR[ti], "chr")
        n = len(bins)
        pix = fx.pixvals(alpha.structured(n, True)[1][1], n)
        uri = fx.make(("c09var", ti), bins, pix)
        inner = {"step": step, "table": ti}
        R.order = (R.order[0], step)
        R.ev(1, 1)
        R.add("transitions")
        R.cls("zoom:variable")
        out = scratch.fresh(".mcool")
        try:
            try:
                cooler.zoomify_cooler(uri, out, [2, 4], chunksize=5, columns=["count", "score"])
            except Exception as e:
                R.mismatch("zoomify-raises:" + type(e).__name__, inner, f"{e!s:.300}")
                continue
            _judge_file(R, inner, out, {1: (uri, [tuple(b) for b in bins], pix)}, [2, 4], ("count", "score"))
        finally:
            scratch.rm(out)


def _level_matches(rd, got, bins0, pix0, factor, cols):
    newbins, _ = models.ref_coarsen(bins0, {}, factor) if factor > 1 else (list(bins0), None)
    if [tuple(b) for b in rd["bins"]] != [tuple(b) for b in newbins]:
        return f"bins differ: got={rd['bins']} want={newbins}"
    want = {}
    for c in cols:
        if factor > 1:
            _, m = models.ref_coarsen(bins0, {k: v[c] for k, v in pix0.items()}, factor)
        else:
            m = {k: v[c] for k, v in pix0.items()}
        for k, v in m.items():
            want.setdefault(k, {})[c] = v
    return fx.same_values(got, want, cols)


def _judge_file(R, inner, out, bases, targets, cols=("count",)):
    """bases: {res: (uri, bins, pix)}"""
    inner = inner or {}
    import cooler
    from cooler import fileops
    want_levels = sorted(set(targets) | set(bases))
    try:
        listing = fileops.list_coolers(out)
        if sorted(listing) != sorted(f"/resolutions/{r}" for r in want_levels) or len(listing) != len(set(listing)):
            R.mismatch("listing!=targets+bases", inner, f"got={listing} want={want_levels}")
            return
        if not fileops.is_multires_file(out):
            R.mismatch("not-recognised-as-multires", inner, "")
        for r in want_levels:
            grp = f"/resolutions/{r}"
            v = h5ref.validate(out, grp)
            if v:
                R.mismatch("V:" + v[0], {**inner, "level": r}, f"{v}")
                continue
            got, rd = fx.read(out + "::" + grp)
            R.add("transitions")
            if r in bases:
                uri, bins0, pix0 = bases[r]
                spath, _, sgrp = uri.partition("::")
                src = h5ref.read_collection(spath, sgrp or "/")
                for key in ("bins", "chroms", "bin1_offset", "chrom_offset", "order"):
                    if src[key] != rd[key]:
                        R.mismatch("base-level-not-a-faithful-copy:" + key, {**inner, "level": r}, f"src={src[key]} got={rd[key]}")
                for c in cols:
                    if {k: x[0][c] for k, x in src["pixrows"].items()} != {k: x[c] for k, x in got.items()}:
                        R.mismatch("base-level-not-a-faithful-copy:pixels", {**inner, "level": r}, c)
                for bc in src["bincols"]:
                    if bc not in rd["bincols"] or not np.array_equal(src["bincols"][bc], rd["bincols"][bc], equal_nan=True):
                        R.mismatch("base-level-not-a-faithful-copy:bin-column", {**inner, "level": r}, bc)
                sa = {k: v for k, v in src["attrs"].items() if k not in h5ref.VOLATILE}
                ga = {k: v for k, v in rd["attrs"].items() if k not in h5ref.VOLATILE}
                if sa != ga:
                    R.mismatch("base-level-not-a-faithful-copy:attrs", {**inner, "level": r}, f"src={sa} got={ga}")
                # also through the public API
                c1, c2 = cooler.Cooler(uri), cooler.Cooler(out + "::" + grp)
                if not np.array_equal(c1.matrix(balance=False)[:], c2.matrix(balance=False)[:]):
                    R.mismatch("base-level-not-a-faithful-copy:matrix", {**inner, "level": r}, "")
            else:
                msgs = []
                for b, (uri, bins0, pix0) in sorted(bases.items()):
                    if r % b == 0:
                        m = _level_matches(rd, got, bins0, pix0, r // b, cols)
                        if m is None:
                            msgs = None
                            break
                        msgs.append(f"vs base {b}: {m}")
                if msgs is not None:
                    R.mismatch("derived-level!=coarsening-of-base", {**inner, "level": r}, "; ".join(msgs) or "no base divides it")
    except Exception as e:
        R.mismatch("judge-raises:" + type(e).__name__, inner, f"{e!s:.300}")


RERUNS = [
    # (first call: base, content, targets), (second call: base, content, targets)
    ((1, "full", [2, 4]), (1, "checker", [2, 4])),          # same layout, other data
    ((1, "full", [2, 4, 8]), (1, "full", [3])),             # fewer / other targets: levels 2, 4, 8 must be gone
    ((2, "full", [4, 12]), (1, "off1", [3, 6])),            # another base resolution
    ((1, "checker", [2]), (2, "full", [4])),                # base 1 must be gone
]


def _rerun(R, k, only):
    import cooler
    R.add("states")
    R.add("traces")
    out = scratch.fresh(".mcool")
    try:
        if k < len(RERUNS):
            first, second = RERUNS[k]
            inner = {"first": list(first), "second": list(second)}
            R.ev(1, 1)
            R.add("transitions", 2)
            R.cls("rerun")
            try:
                cooler.zoomify_cooler(base_uri(first[0], first[1]), out, list(first[2]), chunksize=10 ** 6, columns=["count", "score"])
                cooler.zoomify_cooler(base_uri(second[0], second[1]), out, list(second[2]), chunksize=10 ** 6, columns=["count", "score"])
            except Exception as e:
                R.mismatch("zoomify-raises:" + type(e).__name__, inner, f"{e!s:.300}")
                return
            _judge_file(R, inner, out, {second[0]: (base_uri(second[0], second[1]), base_bins(second[0]), base_pix(second[0], second[1]))}, second[2], ("count", "score"))
            return
        # the source is edited IN PLACE between two runs with identical arguments (chromosomes renamed, a bin column added, one
        # pixel value changed): none of this touches the summary attributes of the source group
        inner = {"first": "base 1, full, [2, 4]", "second": "same call after rename_chroms + new bin column + one changed pixel value in the source"}
        R.ev(1, 1)
        R.add("transitions", 2)
        R.cls("rerun")
        src = scratch.fresh(".cool")
        try:
            bins0, pix0 = base_bins(1), {kk: dict(v) for kk, v in base_pix(1, "full").items()}
            cooler.create_cooler(src, build.bins_df(bins0), fx.frame(pix0), columns=["count", "score"], dtypes={"score": float}, ordered=True)
            cooler.zoomify_cooler(src, out, [2, 4], chunksize=10 ** 6, columns=["count", "score"])
            cooler.rename_chroms(cooler.Cooler(src), {"chr2": "II", "chr10": "X"})
            with h5py.File(src, "r+") as f:
                f["bins"].create_dataset("weight", data=np.array([0.5 + q / 8.0 for q in range(len(bins0))]))
                a, b = f["pixels/count"][0], f["pixels/count"][1]
                f["pixels/count"][0], f["pixels/count"][1] = b, a          # two values swapped: nnz and sum stay what they were
            keys = sorted(pix0)
            pix0[keys[0]]["count"], pix0[keys[1]]["count"] = pix0[keys[1]]["count"], pix0[keys[0]]["count"]
            bins1 = [({"chr2": "II", "chr10": "X"}[c], s0, e0) for c, s0, e0 in bins0]
            cooler.zoomify_cooler(src, out, [2, 4], chunksize=10 ** 6, columns=["count", "score"])
            _judge_file(R, inner, out, {1: (src, bins1, pix0)}, [2, 4], ("count", "score"))
        except Exception as e:
            R.mismatch("zoomify-raises:" + type(e).__name__, inner, f"{e!s:.300}")
        finally:
            scratch.rm(src)
    finally:
        scratch.rm(out)


def _abort(R, unit, only):
    """E4: one zoomify run, then the same run with an injected I/O error at EVERY h5py call (and with a level that does not fit the
    requested dtype). Whatever is left behind: the source is untouched, and an output that is recognised as a multi-resolution file
    holds every requested level and the base complete (nothing half-written passes for a zoomified file)."""
    import cooler
    from cooler import fileops
    from vmc.seams.sched import H5Hook
    tg, cs = unit["targets"], unit["chunksize"]
    uri = base_uri(1, "full")
    bins0, pix0 = base_bins(1), base_pix(1, "full")
    src_before = h5ref.canon(uri.split("::")[0])
    R.add("states")
    R.add("traces")
    out = scratch.fresh(".mcool")

    def call(**kw):
        cooler.zoomify_cooler(uri, out, list(tg), chunksize=cs, columns=["count", "score"], **kw)

    def leftover(inner, raised):
        if h5ref.canon(uri.split("::")[0]) != src_before:
            R.mismatch("source-changed-by-zoomify", inner, "")
        if not os.path.exists(out):
            return
        try:
            rec = fileops.is_multires_file(out)
        except Exception as e:
            R.mismatch("is_multires_file-raises-on-leftover:" + type(e).__name__, inner, f"{e!s:.200}")
            return
        if rec:
            R.cls("abort:recognised-afterwards")
            _judge_file(R, {**inner, "state": "left behind by an interrupted run and recognised as a multi-resolution file"}, out,
                        {1: (uri, bins0, pix0)}, tg, ("count", "score"))
        else:
            R.cls("abort:not-recognised-afterwards")
            if not raised:
                R.mismatch("not-recognised-as-multires", inner, "run completed without error")
    try:
        H5Hook.start()
        try:
            call()
        finally:
            N, log = H5Hook.stop()
        _judge_file(R, {"k": 0}, out, {1: (uri, bins0, pix0)}, tg, ("count", "score"))
        for k in range(1 + unit.get("part", 0), N + 1, unit.get("of", 1)):
            inner = {"k": k, "call": log[k - 1], "N": N}
            if only is not None and only.get("k") != k:
                continue
            R.order = (R.order[0], k)
            R.ev(1, 1)
            R.add("transitions")
            R.add("fault_points")
            R.cls("abort")
            scratch.rm(out)
            raised = False
            H5Hook.start(fail_at=k)
            try:
                call()
            except Exception:
                raised = True
            finally:
                H5Hook.stop()
            leftover(inner, raised)
        # a level that does not fit the requested dtype: levels before it are written, then the run stops
        for dt in (("int8", "int16") if unit.get("part", 0) == 0 else ()):
            inner = {"dtypes": dt}
            if only is not None and only != inner:
                continue
            R.ev(1, 1)
            R.add("transitions")
            R.cls("abort")
            scratch.rm(out)
            raised = False
            try:
                call(dtypes={"count": np.dtype(dt)})
            except Exception:
                raised = True
            if raised:
                R.cls("abort:level-does-not-fit")
            leftover(inner, raised)
    finally:
        scratch.rm(out)


def _api(R, unit, tier, only):
    import cooler
    th = tier == "thorough"
    base, mask, content = unit["base"], unit["mask"], unit["content"]
    T = TARGETS1 if base == 1 else TARGETS2 if base == 2 else TARGETS3
    targets = [t for k, t in enumerate(T) if mask >> k & 1]
    uri = base_uri(base, content)
    bins0, pix0 = base_bins(base), base_pix(base, content)
    derivable = all(t % base == 0 for t in targets)
    R.add("states")
    R.add("traces")
    chunks = [10 ** 6] + ([1, 3] if (th or mask % 8 == 5) else [])
    orders = [targets] + ([targets[::-1]] if len(targets) > 1 and mask % 4 == 3 else [])
    kk = 0
    for cs in chunks:
        for tg in orders:
            kk += 1
            inner = {"targets": tg, "chunksize": cs}
            if only is not None and only != inner:
                continue
            R.order = (R.order[0], kk)
            R.ev(1, 1 if any(t != base for t in tg) else 0)
            R.add("transitions")
            out = scratch.fresh(".mcool")
            try:
                try:
                    cooler.zoomify_cooler(uri, out, list(tg), chunksize=cs, columns=["count", "score"])
                    raised = None
                except Exception as e:
                    raised = e
                if not derivable:
                    R.cls("zoom:refused")
                    if raised is None:
                        R.mismatch("non-derivable-resolution-accepted", inner, f"targets={tg} base={base}")
                    continue
                R.cls("zoom:ok")
                if raised is not None:
                    R.mismatch("zoomify-raises:" + type(raised).__name__, inner, f"{raised!s:.300}")
                    continue
                _judge_file(R, inner, out, {base: (uri, bins0, pix0)}, tg, ("count", "score"))
                R.outcome((base, tuple(sorted(tg))))
            finally:
                scratch.rm(out)


def _multi(R, unit, only):
    import cooler
    bases, consistent, targets = unit["bases"], unit["consistent"], unit["targets"]
    R.add("states")
    R.add("traces")
    R.ev(1, 1)
    R.add("transitions")
    R.cls("multi-base")
    spec = {}
    for b in bases:
        if consistent:
            pix = consistent_pix(b, "full")
            uri = fx.make(("c09cons", b), base_bins(b), pix)
        else:
            pix = base_pix(b, ["full", "checker", "off1"][b - 1])
            if b == max(bases) and len(bases) > 1:
                # the coarsest independent base stores its counts as float64 with fractional values (dtype must not be
                # inherited from a level derived earlier from another base)
                pix = {k: {"count": v["count"] + 0.5, "score": v["score"]} for k, v in pix.items()}
                uri = fx.make(("c09float", b), base_bins(b), pix, count_dtype=np.float64)
            else:
                uri = base_uri(b, ["full", "checker", "off1"][b - 1], weights=(b == 2), group="/" if b != 2 else "/nested/grp")
        spec[b] = (uri, base_bins(b), pix)
    derivable = all(any(t % b == 0 for b in bases) for t in targets)
    out = scratch.fresh(".mcool")
    try:
        try:
            cooler.zoomify_cooler([spec[b][0] for b in bases], out, list(targets), chunksize=3, columns=["count", "score"])
            raised = None
        except Exception as e:
            raised = e
        if not derivable:
            if raised is None:
                R.mismatch("non-derivable-resolution-accepted", None, f"targets={targets} bases={bases}")
            return
        if raised is not None:
            R.mismatch("zoomify-raises:" + type(raised).__name__, None, f"{raised!s:.300}")
            return
        _judge_file(R, None, out, spec, targets, ("count", "score"))
    finally:
        scratch.rm(out)


def _sched(R, unit, tier, only):
    import cooler
    bound = 2 if tier == "thorough" else 1
    targets = unit["targets"]
    uri = base_uri(1, "full")
    bins0, pix0 = base_bins(1), base_pix(1, "full")
    R.add("states")
    R.add("traces")

    def run(ch):
        mon = sched.Monitor()
        vl, restore = sched.patch_reduce(mon, ch)
        out = scratch.fresh(".mcool")
        sched.H5Hook.start(mon=mon)
        err = None
        try:
            cooler.zoomify_cooler(uri, out, list(targets), chunksize=7, nproc=2, columns=["count", "score"])
        except sched.Deadlock:
            err = "deadlock"
        except Exception as e:
            err = f"{type(e).__name__}: {e!s:.200}"
        finally:
            sched.H5Hook.stop()
            restore()
        if vl.held:
            mon.flag("lock still held after return")
        return out, err, mon

    kk = 0
    for ch, (out, err, mon) in sched.explore(run, bound):
        kk += 1
        choices = [c for (_, c, _) in ch.trace]
        inner = {"choices": choices}
        try:
            if only is not None and only != inner:
                continue
            R.order = (R.order[0], kk)
            R.ev(1, 1 if any(choices) else 0)
            R.add("transitions")
            R.add("schedules")
            R.cls("sched")
            if err:
                R.mismatch("schedule:" + ("deadlock" if err == "deadlock" else "raises"), inner, err)
                continue
            for f in mon.flags:
                R.mismatch("protocol:" + f, inner, "")
            _judge_file(R, inner, out, {1: (uri, bins0, pix0)}, targets, ("count", "score"))
        finally:
            scratch.rm(out)


# ---- CLI ------------------------------------------------------------------------------------------------
def ref_resolutions(spec, curres, maxres):
    """the help text's definition of -r"""
    def nice(start):
        out, s = [], start
        while True:
            for m in (1, 2, 5):
                if s * m > maxres:
                    return out
                out.append(s * m)
            s *= 10

    def binary(start):
        out, s = [], start
        while s <= maxres:
            out.append(s)
            s *= 2
        return out
    res = []
    for tok in spec.split(","):
        t = tok.strip().lower()
        if t == "n":
            res += nice(curres)
        elif t == "b":
            res += binary(curres)
        elif t == "4dn":
            res += [1000, 2000] + nice(5000)
        elif t.endswith("n"):
            res += nice(int(t[:-1]))
        elif t.endswith("b"):
            res += binary(int(t[:-1]))
        else:
            res.append(int(t))
    return res


CLI_SIZES = [("chr2", 2600), ("chr10", 1400)]
CLI_SPECS = [["4", "2,4", "2,4,8"], ["N", "B", "n", "b"], ["2N", "2B", "3n", "3b", "5N"], ["4DN", "4dn", "2,3N", "1,4B"], [None, "16", "1"],
             ["-i", "--field"]]


def _cli_base(res):
    bins = models.ref_binnify(CLI_SIZES, res)
    n = len(bins)
    cells = [(i, min(n - 1, i + d)) for i in range(0, n, 37) for d in (0, 1, 5, 400)]
    cells = sorted(set(cells))
    pix = fx.pixvals(cells, n, scale=res)
    return fx.make(("c09cli", res), bins, pix), bins, pix


def _cli(R, k, only):
    R.add("states")
    R.add("traces")
    uri, bins0, pix0 = _cli_base(1)
    genome = sum(L for _, L in CLI_SIZES)
    maxres = -(-genome // 256)
    for kk, spec in enumerate(CLI_SPECS[k]):
        inner = {"spec": spec}
        if only is not None and only != inner:
            continue
        R.order = (R.order[0], kk)
        R.ev(1, 1)
        R.add("transitions")
        R.cls("cli")
        out = scratch.fresh(".mcool")
        try:
            if spec == "-i":
                u2, b2, p2 = _cli_base(3)
                args = ["zoomify", "-r", "2,6,9", "-i", u2, "-o", out, "-c", 50, uri]
                bases = {1: (uri, bins0, pix0), 3: (u2, b2, p2)}
                targets = [2, 6, 9]
                cols = ("count",)
            elif spec == "--field":
                args = ["zoomify", "-r", "2,4", "--field", "count", "--field", "score:dtype=float64,agg=max", "-o", out, uri]
                code, so, exc = build.cli(args)
                if code != 0 or exc is not None:
                    R.mismatch("zoomify-cli-fails", inner, f"code={code} exc={exc!r}")
                    continue
                got, rd = fx.read(out + "::/resolutions/4")
                _, mc = models.ref_coarsen(bins0, {kx: v["count"] for kx, v in pix0.items()}, 4)
                _, ms = models.ref_coarsen(bins0, {kx: v["score"] for kx, v in pix0.items()}, 4, "max")
                want = {kx: {"count": mc[kx], "score": ms[kx]} for kx in mc}
                msg = fx.same_values(got, want, ("count", "score")) if "score" in rd["cols"] else "score column missing"
                if msg:
                    R.mismatch("zoomify-cli--field", inner, msg)
                continue
            else:
                args = ["zoomify"] + (["-r", spec] if spec else []) + ["-o", out, "-c", 1000, uri]
                bases = {1: (uri, bins0, pix0)}
                targets = ref_resolutions(spec or "B", 1, maxres)
                cols = ("count",)
            code, so, exc = build.cli(args)
            if code != 0 or exc is not None:
                R.mismatch("zoomify-cli-fails", inner, f"code={code} exc={exc!r} want-resolutions={targets}")
                continue
            _judge_file(R, inner, out, bases, targets, cols)
            R.outcome((spec, tuple(sorted(set(targets)))))
        finally:
            scratch.rm(out)


def seams():
    from vmc.checks import c08
    c08.seams()


def run(unit, R, tier, only=None):
    leg = unit["leg"]
    if leg == "api":
        _api(R, unit, tier, only)
        if unit["mask"] == 0b0101010:
            R.sample({"leg": leg, "base": unit["base"], "targets": [t for k, t in enumerate((TARGETS1 if unit["base"] == 1 else TARGETS2 if unit["base"] == 2 else TARGETS3)) if unit["mask"] >> k & 1],
                      "genome": SIZES, "content": unit["content"]})
    elif leg == "multi":
        _multi(R, unit, only)
    elif leg == "sched":
        _sched(R, unit, tier, only)
    elif leg == "cli":
        _cli(R, unit["k"], only)
    elif leg == "varseq":
        _varseq(R, unit, only)
    elif leg == "abort":
        _abort(R, unit, only)
    elif leg == "rerun":
        _rerun(R, unit["k"], only)
    else:
        raise ValueError(leg)
