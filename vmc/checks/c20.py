"""C20 — generated bin tables tile the genome; a reported bin size is always true (E1)."""
from __future__ import annotations

import itertools
import os

import numpy as np
import pandas as pd

from vmc import alpha, build, models
from vmc.core import scratch

ID = "C20"
LEVEL = "model_checking"
RULE = ("binnify: every chromosome-size table with 1..3 chromosomes of length 1..L x every width 1..L+1 against "
        "ref_binnify; get_binsize/get_chromsizes: every bin table of BT(3,B,{1,2,3}) x 2 name flavours x 3 chrom "
        "encodings, oracle 'reported b => every bin is [k*b, min((k+1)*b, length))'; end to end through "
        "create_cooler/Cooler.binsize/info/chromsizes, parse_bins and `cooler makebins`. Non-trivial: more than one "
        "bin in the table / width smaller than some chromosome. Distinct by construction.")
EXTRA_LEGS = 'binnify-widths: every width 1..512 (thorough 4096) x lengths m*w-1, m*w, m*w+1 for m in {1,2,7,40}.' + ' inference leg also with row labels that restart per chromosome, are all equal, or are reversed.'
BOUNDS = {"quick": "binnify L=8 (584 size tables x 9 widths) + large lengths; BT(3,5,W): 3369 tables; end-to-end on BTrep(3,5)",
          "thorough": "binnify L=12 (1884 size tables x 13 widths); BT(3,7,W): 66066 tables; end-to-end on BTrep(3,6) + all of BT(3,4,W)"}
ASSUMPTIONS = ["bin tables given to the inference are valid: contiguous from 0 within each chromosome, grouped by chromosome",
               "only the 'only if' direction is demanded of a reported bin size, as the property states"]
EXPECT_CLASSES = {"*": ["binsize:reported", "binsize:none", "tclass:uni>", "tclass:uni<", "tclass:var", "tclass:one"]}

NAMES3 = ["a", "b", "c"]


def units(tier):
    th = tier == "thorough"
    L = 12 if th else 8
    for nchrom in (1, 2, 3):
        lens = list(itertools.product(range(1, L + 1), repeat=nchrom))
        for lo in range(0, len(lens), 64):
            yield {"leg": "binnify", "L": L, "nchrom": nchrom, "lo": lo, "hi": min(len(lens), lo + 64)}
    yield {"leg": "binnify-large"}
    # every width 1..512 (thorough 4096) x lengths m*w-1, m*w, m*w+1 for m in {1,2,7,40}: the ceil(len/width) arithmetic must be exact
    top = 4096 if tier == "thorough" else 512
    for lo in range(1, top + 1, 64):
        yield {"leg": "binnify-widths", "lo": lo, "hi": min(top + 1, lo + 64)}
    tabs = alpha.bin_tables(3, 7 if th else 5)
    for lo in range(0, len(tabs), 128):
        yield {"leg": "infer", "B": 7 if th else 5, "lo": lo, "hi": min(len(tabs), lo + 128)}
    rep = alpha.bt_rep(3, 6 if th else 5)
    for lo in range(0, len(rep), 8):
        yield {"leg": "e2e", "B": 6 if th else 5, "lo": lo, "hi": min(len(rep), lo + 8), "src": "rep"}
    if th:
        t4 = alpha.bin_tables(3, 4)
        for lo in range(0, len(t4), 16):
            yield {"leg": "e2e", "B": 4, "lo": lo, "hi": min(len(t4), lo + 16), "src": "all"}
    for k in range(8):
        yield {"leg": "cli", "part": k}


def _df_bins(df):
    return list(zip(df["chrom"].astype(str).tolist(), [int(x) for x in df["start"]], [int(x) for x in df["end"]]))


def _binnify_one(R, sizes, w, inner):
    from cooler import util
    names = NAMES3[:len(sizes)]
    cs = pd.Series(list(sizes), index=names, dtype=np.int64)
    want = models.ref_binnify(list(zip(names, sizes)), w)
    R.ev(1, 1 if len(want) > len(sizes) else 0)
    R.add("transitions")
    try:
        df = util.binnify(cs, w)
        got = _df_bins(df)
        if got != want:
            R.mismatch("binnify!=ref", inner, f"got={got} want={want}")
        if isinstance(df["chrom"].dtype, pd.CategoricalDtype) and list(df["chrom"].cat.categories) != names:
            R.mismatch("binnify-chrom-order", inner, f"{list(df['chrom'].cat.categories)}")
        if list(df.index) != list(range(len(df))):
            R.mismatch("binnify-index", inner, f"{list(df.index)}")
        R.outcome(got)
    except Exception as e:
        R.mismatch("raises:" + type(e).__name__, inner, f"{e!s:.200}")


def _infer_one(R, table, flavour, enc, inner):
    from cooler import util
    bins = alpha.table_bins(table, flavour)
    names = alpha.NAMES[flavour][:len(table)]
    if enc == "edited-binnify":
        # the table is made the way users make one: generate a fixed-width table with binnify(), then move its edges
        sizes = models.ref_chromsizes(bins)
        df = None
        for w in sorted({b[2] - b[1] for b in bins}):
            cand = util.binnify(pd.Series([sizes[nm] for nm in names], index=names), w)
            if len(cand) == len(bins) and [str(x) for x in cand["chrom"]] == [b[0] for b in bins]:
                df = cand
                break
        if df is None:
            return
        df["start"] = [b[1] for b in bins]
        df["end"] = [b[2] for b in bins]
        df = df.copy()
        R.cls("enc:edited-binnify")
    elif enc.startswith("object"):
        chrom = pd.Series([b[0] for b in bins], dtype=object)
    elif enc == "categorical":
        chrom = pd.Categorical([b[0] for b in bins], categories=names, ordered=True)
    else:
        chrom = np.array([names.index(b[0]) for b in bins], dtype=np.int32)
    if enc != "edited-binnify":
        df = pd.DataFrame({"chrom": chrom, "start": [b[1] for b in bins], "end": [b[2] for b in bins]})
    if enc == "object:index-restarts-per-chromosome":
        # row labels as pd.concat of per-chromosome tables without ignore_index gives them: 0,1,2,0,1,...
        df = df.set_axis([k for c in table for k in range(len(c))])
        R.cls("enc:non-unique-index")
    elif enc == "object:index-all-equal":
        df = df.set_axis([0] * len(df))
        R.cls("enc:non-unique-index")
    elif enc == "object:index-reversed":
        df = df.set_axis(list(range(len(df) - 1, -1, -1)))
    if enc == "int":
        bins = [(names.index(c), s, e) for c, s, e in bins]
    R.ev(1, 1 if len(bins) > 1 else 0)
    R.add("transitions", 2)
    for c in table:
        R.cls("tclass:" + alpha.chrom_class(c))
    try:
        b = util.get_binsize(df)
        if b is not None:
            R.cls("binsize:reported")
            b = int(b)
            if not models.ref_binsize_ok(bins, b):
                R.mismatch("reported-binsize-false", inner, f"get_binsize={b} bins={bins}")
        else:
            R.cls("binsize:none")
        R.outcome((b, len(table)))
        cs = util.get_chromsizes(df)
        want = models.ref_chromsizes(bins)
        order = []
        for c, _, _ in bins:
            if c not in order:
                order.append(c)
        got = [(k if not isinstance(k, (np.integer,)) else int(k), int(v)) for k, v in zip(cs.index.tolist(), cs.tolist())]
        if got != [(c, want[c]) for c in order]:
            R.mismatch("chromsizes!=last-bin-ends", inner, f"got={got} want={[(c, want[c]) for c in order]}")
    except Exception as e:
        R.mismatch("raises:" + type(e).__name__, inner, f"{e!s:.200}")


def _e2e_one(R, table, flavour, inner):
    import cooler
    bins = alpha.table_bins(table, flavour)
    p = scratch.fresh()
    R.ev(1, 1 if len(bins) > 1 else 0)
    R.add("states")
    R.add("traces")
    R.add("transitions", 3)
    try:
        build.create(p, bins, {(0, 0): 1}, True)
        clr = cooler.Cooler(p)
        b = clr.binsize
        info = clr.info
        if b is not None:
            R.cls("e2e-binsize:reported")
            if not models.ref_binsize_ok(bins, int(b)):
                R.mismatch("cooler-binsize-false", inner, f"Cooler.binsize={b} bins={bins}")
        else:
            R.cls("e2e-binsize:none")
        if (info.get("bin-type") == "fixed") != (b is not None):
            R.mismatch("bin-type-vs-bin-size", inner, f"bin-type={info.get('bin-type')} bin-size={b}")
        want = models.ref_chromsizes(bins)
        cs = clr.chromsizes
        got = list(zip(cs.index.tolist(), [int(x) for x in cs.tolist()]))
        order = alpha.NAMES[flavour][:len(table)]
        if got != [(c, want[c]) for c in order]:
            R.mismatch("cooler-chromsizes!=last-bin-ends", inner, f"got={got}")
        if _df_bins(clr.bins()[:]) != bins:
            R.mismatch("bins-roundtrip", inner, f"got={_df_bins(clr.bins()[:])}")
    except Exception as e:
        R.mismatch("raises:" + type(e).__name__, inner, f"{e!s:.200}")
    finally:
        scratch.rm(p)


def _cli_part(R, part, only):
    """parse_bins("sizes:width"), parse_bins(BED) and `cooler makebins` on a fixed family of size tables"""
    from cooler.cli._util import parse_bins
    fam = [s for nch in (1, 2, 3) for s in itertools.product((1, 2, 5, 6, 7), repeat=nch)]
    d = scratch.sub("c20cli%d" % os.getpid())
    k = 0
    for q, sizes in enumerate(fam):
        if q % 8 != part:
            continue
        names = ["chr2", "chr10", "chr1"][:len(sizes)]   # order must be kept as given, not natural-sorted
        fn = os.path.join(d, f"s{q}.sizes")
        with open(fn, "w") as f:
            for nme, L in zip(names, sizes):
                f.write(f"{nme}\t{L}\n")
        for w in (1, 2, 3, 6, 8):
            k += 1
            inner = {"sizes": list(sizes), "w": w}
            if only is not None and only != inner:
                continue
            R.order = (R.order[0], k)
            want = models.ref_binnify(list(zip(names, sizes)), w)
            R.ev(1, 1 if len(want) > len(sizes) else 0)
            R.add("transitions", 3)
            try:
                cs, bins = parse_bins(f"{fn}:{w}")
                if _df_bins(bins) != want or list(cs.index) != names or [int(x) for x in cs] != list(sizes):
                    R.mismatch("parse_bins(sizes:width)!=ref", inner, f"got={_df_bins(bins)} want={want}")
                bed = os.path.join(d, f"b{q}_{w}.bed")
                code, out, exc = build.cli(["makebins", fn, str(w), "-o", bed])
                if code != 0 or exc is not None:
                    R.mismatch("makebins-fails", inner, f"code={code} exc={exc!r}")
                    continue
                rows = [ln.split("\t") for ln in open(bed).read().splitlines()]
                got = [(r[0], int(r[1]), int(r[2])) for r in rows]
                if got != want:
                    R.mismatch("makebins!=ref", inner, f"got={got} want={want}")
                cs2, bins2 = parse_bins(bed)
                if _df_bins(bins2) != want or list(cs2.index) != names or [int(x) for x in cs2] != list(sizes):
                    R.mismatch("parse_bins(bed)!=ref", inner, f"got={_df_bins(bins2)} cs={cs2.to_dict()}")
                # to stdout, with a header line and a per-chromosome running number (0- or 1-based): the three bin columns stay what
                # they are, the number restarts at each chromosome
                for rel in (None, 0, 1):
                    if (k + (rel or 0)) % 3 and rel is not None:
                        continue
                    args = ["makebins", fn, str(w), "-H"] + (["--rel-ids", rel] if rel is not None else [])
                    code, out, exc = build.cli(args)
                    if code != 0 or exc is not None:
                        R.mismatch("makebins-fails", {**inner, "args": args[3:]}, f"code={code} exc={exc!r}")
                        continue
                    rows = [ln.split("\t") for ln in out.splitlines()]
                    hdr, rows = rows[0], rows[1:]
                    if hdr != ["chrom", "start", "end"] + (["id"] if rel is not None else []):
                        R.mismatch("makebins:header", {**inner, "args": args[3:]}, f"{hdr}")
                    if [(r[0], int(r[1]), int(r[2])) for r in rows] != want:
                        R.mismatch("makebins!=ref", {**inner, "args": args[3:]}, f"got={rows[:4]} want={want[:4]}")
                    if rel is not None:
                        wid, seen = [], {}
                        for c, _, _ in want:
                            wid.append(seen.get(c, 0) + rel)
                            seen[c] = seen.get(c, 0) + 1
                        if [int(r[3]) for r in rows] != wid:
                            R.mismatch("makebins:--rel-ids", {**inner, "args": args[3:]}, f"got={[r[3] for r in rows]} want={wid}")
            except Exception as e:
                R.mismatch("raises:" + type(e).__name__, inner, f"{e!s:.200}")
    scratch.rm(d)


def run(unit, R, tier, only=None):
    leg = unit["leg"]
    if leg == "binnify":
        L, nch = unit["L"], unit["nchrom"]
        lens = list(itertools.product(range(1, L + 1), repeat=nch))[unit["lo"]:unit["hi"]]
        k = 0
        for sizes in lens:
            for w in range(1, L + 2):
                k += 1
                inner = {"sizes": list(sizes), "w": w}
                if only is not None and only != inner:
                    continue
                R.order = (R.order[0], k)
                _binnify_one(R, sizes, w, inner)
        R.sample({"leg": leg, "sizes": list(lens[0]), "widths": f"1..{L + 1}"})
    elif leg == "binnify-large":
        k = 0
        for sizes in [(2 ** 31 - 1,), (10 ** 9, 2 ** 31 - 1), (2 ** 31, 5), (3 * 10 ** 9,)]:
            for w in (10 ** 9, 2 ** 30, 2 ** 31 - 1, 2 ** 31, 123456789):
                k += 1
                inner = {"sizes": list(sizes), "w": w}
                if only is not None and only != inner:
                    continue
                R.order = (R.order[0], k)
                _binnify_one(R, sizes, w, inner)
    elif leg == "binnify-widths":
        from cooler import util
        k = 0
        for w in range(unit["lo"], unit["hi"]):
            for m in (1, 2, 7, 40):
                sizes = tuple(x for x in (m * w - 1, m * w, m * w + 1) if x >= 1)
                k += 1
                inner = {"sizes": list(sizes), "w": w}
                if only is not None and only != inner:
                    continue
                R.order = (R.order[0], k)
                R.cls("binnify-widths")
                _binnify_one(R, sizes, w, inner)
                # a binnified table must be reported as fixed-width w (only-if direction: whatever is reported must be true)
                try:
                    names = NAMES3[:len(sizes)]
                    bs = util.get_binsize(util.binnify(pd.Series(list(sizes), index=names, dtype=np.int64), w))
                    if bs is not None and int(bs) != w and not all(x <= w for x in sizes):
                        R.mismatch("reported-binsize-false", inner, f"reported {bs}")
                except Exception as e:
                    R.mismatch("raises:" + type(e).__name__, inner, f"{e!s:.200}")
    elif leg == "infer":
        tabs = alpha.bin_tables(3, unit["B"])[unit["lo"]:unit["hi"]]
        k = 0
        for t in tabs:
            for flavour in ("abc", "chr"):
                for enc in ("object", "categorical", "int", "edited-binnify", "object:index-restarts-per-chromosome", "object:index-all-equal", "object:index-reversed"):
                    k += 1
                    inner = {"table": [list(c) for c in t], "names": flavour, "enc": enc}
                    if only is not None and only != inner:
                        continue
                    R.order = (R.order[0], k)
                    R.add("states")
                    R.add("traces")
                    _infer_one(R, t, flavour, enc, inner)
        R.sample({"leg": leg, "table(widths per chromosome)": [list(c) for c in tabs[-1]], "names": "abc|chr", "enc": "object|categorical|int"})
    elif leg == "e2e":
        tabs = (alpha.bt_rep(3, unit["B"]) if unit["src"] == "rep" else alpha.bin_tables(3, unit["B"]))[unit["lo"]:unit["hi"]]
        k = 0
        for t in tabs:
            for flavour in ("abc", "chr"):
                k += 1
                inner = {"table": [list(c) for c in t], "names": flavour}
                if only is not None and only != inner:
                    continue
                R.order = (R.order[0], k)
                _e2e_one(R, t, flavour, inner)
    elif leg == "cli":
        _cli_part(R, unit["part"], only)
    else:
        raise ValueError(leg)


def classify(m):
    """known-finding signatures (narrow): F01 = a bin size is reported although some chromosome's last
    (or only) bin is LONGER than it, everything else being uniform."""
    if m["clause"] in ("reported-binsize-false", "cooler-binsize-false"):
        inner = m["case"]["inner"]
        table = inner["table"]
        multi = [c for c in table if len(c) > 1]
        body = {w for c in multi for w in c[:-1]}
        if len(body) == 1:
            b = next(iter(body))
            if any(c[-1] > b for c in table):
                return "F01"
    return None
