"""C17 — every cell of a single-cell file reads back as the matrix given for it (E1)."""
from __future__ import annotations

import itertools

import h5py
import numpy as np

from vmc import alpha, build, fixtures as fx, h5ref
from vmc.core import scratch

ID = "C17"
LEVEL = "model_checking"
RULE = ("3 common bin tables x cell-name sets = EVERY non-empty subset (size 1..3) of 6 names (plain, underscore, dot, space, numeric, "
        "non-ASCII) x EVERY assignment of 4 matrices (incl. the empty one) to the cells x bins given once | once with an extra column | per cell with an extra column "
        "whose values differ per cell, placed last, first or between the coordinate columns x storage mode. Oracle: list_scool_cells == {/cells/<name>}; is_scool_file; Cooler(file::/cells/x) "
        "reads pixels == that cell's input and bins == common table (+ that cell's extra column); the HDF5 objects cells/x/bins/{chrom,"
        "start,end} ARE the root's /bins objects (same object address: stored once); V per cell. Non-trivial: >=2 cells with different "
        "matrices. Distinct by construction.")
EXTRA_LEGS = "per-cell bin columns whose values are nearly equal across cells (1e-9 relative) or tiny (1e-12); every third assignment passes each cell's pixels as a one-shot iterator of chunks." + ' per-cell bin tables carry reversed / offset / all-equal row labels.'
BOUNDS = {"quick": "all assignments for name sets of size <=2 and every other set of size 3 on table 0 (symmetric, bins once); size <=2 for the other 5 (table, mode, bins) variants",
          "thorough": "all assignments for size <=3 on every (table, mode, bins-variant)"}
ASSUMPTIONS = ["cell names do not contain '/'", "each cell's pixel frame is sorted (create_scool passes frames straight to create)"]
EXPECT_CLASSES = {"*": ["cells:1", "cells:2", "cells:3", "bins:once", "bins:per-cell", "mode:symm", "mode:square"]}

NAMES = ["a", "cell_1", "x.y", "with space", "10", "Zß"]
TABLES = [((2, 2), (2,)), ((1, 3), (2, 1)), ((3,), (3,), (3, 1))]


def mats(n, symm):
    allc = alpha.cells(n, symm)
    return [[], [(0, 0)], [c for c in allc if (c[0] + c[1]) % 2 == 0], allc[::-1][:3][::-1] + ([(n - 1, 0)] if not symm else [])]


def _near(q, k):
    return 1.0 + k / 4 + q * 2.0 ** -30


def _tiny(q, k):
    return (q + 1) * (k + 1) * 2.0 ** -40


def units(tier):
    th = tier == "thorough"
    for perm in range(24):
        yield {"leg": "seq", "perm": perm}
    for ti in range(3):
        for symm in (True, False):
            for per_cell in (False, True, "first", "middle", "once+extra"):
                main = th or (ti == 0 and symm and not per_cell)
                if per_cell in ("first", "middle", "once+extra") and not th and not (symm or ti == 1):
                    continue
                for size in (1, 2, 3):
                    if size == 3 and not main:
                        continue
                    for q, names in enumerate(itertools.combinations(range(6), size)):
                        if size == 3 and not th and q % 2:
                            continue        # quick: every other 3-subset of names
                        yield {"t": ti, "symm": symm, "per_cell": per_cell, "names": list(names)}


SEQ_TABLES = [((2, 2), (2,)), ((2,), (2, 2)), ((1, 3), (2,)), ((3,), (1, 2))]      # 2 chromosomes, 3 bins, different boundaries


def _seq(R, unit, only):
    """single-cell files written one after the other to the SAME path on tables that agree in chromosome and bin counts only"""
    import cooler
    from cooler import fileops
    order = list(itertools.permutations(range(4)))[unit["perm"]]
    R.add("traces")
    p = scratch.fresh(".scool")
    try:
        for step, ti in enumerate(order):
            bins = alpha.table_bins(SEQ_TABLES[ti], "chr")
            n = len(bins)
            names = ["c1", "c2"]
            pix = {nm: fx.pixvals([(0, 0), (0, 2), (1, 1 + q)], n, scale=q + 1 + step) for q, nm in enumerate(names)}
            inner = {"step": step, "table": ti}
            R.order = (R.order[0], step)
            R.ev(1, 1 if step else 0)
            R.add("states")
            R.add("transitions", 5)
            R.cls("seq-same-path")
            try:
                cooler.create_scool(p, build.bins_df(bins), {nm: fx.frame(pix[nm], ("count",)) for nm in names}, ordered=True)
                for nm in names:
                    v = h5ref.validate(p, "/cells/" + nm)
                    if v:
                        R.mismatch("V:" + v[0], {**inner, "cell": nm}, f"{v}")
                    clr = cooler.Cooler(p + "::/cells/" + nm)
                    for c in ("chr2", "chr10"):
                        want = [k for k, b in enumerate(bins) if b[0] == c]
                        lo, hi = [int(x) for x in clr.extent(c)]
                        if (lo, hi) != (want[0], want[-1] + 1):
                            R.mismatch("cell-extent!=its-chromosome", {**inner, "cell": nm, "chrom": c}, f"got={(lo, hi)} want={(want[0], want[-1] + 1)}")
                    df = clr.pixels()[:]
                    if {(a, b): c for a, b, c in zip(df["bin1_id"].tolist(), df["bin2_id"].tolist(), df["count"].tolist())} != {k: v["count"] for k, v in pix[nm].items()}:
                        R.mismatch("cell-pixels!=its-input", {**inner, "cell": nm}, "")
            except Exception as e:
                R.mismatch("read-raises:" + type(e).__name__, inner, f"{e!s:.300}")
    finally:
        scratch.rm(p)


def run(unit, R, tier, only=None):
    import cooler
    from cooler import fileops
    if unit.get("leg") == "seq":
        _seq(R, unit, only)
        return
    ti, symm, per_cell = unit["t"], unit["symm"], unit["per_cell"]
    bins = alpha.table_bins(TABLES[ti], "chr")
    n = len(bins)
    names = [NAMES[k] for k in unit["names"]]
    M = mats(n, symm)
    R.add("traces")
    kk = 0
    for assign in itertools.product(range(4), repeat=len(names)):
        kk += 1
        inner = {"assign": list(assign)}
        if only is not None and only != inner:
            continue
        R.order = (R.order[0], kk)
        R.ev(1, 1 if len(set(assign)) >= 2 else 0)
        R.add("states")
        R.add("transitions", 1 + 3 * len(names))
        R.cls("cells:%d" % len(names))
        R.cls("bins:once" if not per_cell else "bins:once+extra" if per_cell == "once+extra" else "bins:per-cell")
        if per_cell in ("first", "middle"):
            R.cls("bins:per-cell-column-order")
        R.cls("mode:symm" if symm else "mode:square")
        pix = {nm: fx.pixvals(M[a], n, scale=q + 1) for q, (nm, a) in enumerate(zip(names, assign))}
        # the two dicts (pixels, bins) are given in OPPOSITE key orders: cells must be matched by name, not by position
        # every third assignment: a second value column, a float count column, an assembly name and metadata are passed along
        rich = kk % 3 == 1
        if rich:
            R.cls("options:columns+dtypes+assembly+metadata")
            frames = {nm: fx.frame(pix[nm], ("count", "score"), count_dtype=np.float64) for nm in reversed(names)}
            for fr in frames.values():
                fr["count"] = fr["count"] + 0.5
            extra_kw = {"columns": ["count", "score"], "dtypes": {"count": np.float64, "score": np.float64}, "assembly": "asmS", "metadata": {"run": kk, "who": "ß"}}
        else:
            frames = {nm: fx.frame(pix[nm], ("count",)) for nm in reversed(names)}
            extra_kw = {}
            if kk % 3 == 2:
                # every third assignment: each cell's pixels as a ONE-SHOT iterator of chunks (one chunk, or split in two)
                R.cls("pixels:one-shot-iterators")

                def _gen(fr, two):
                    if two and len(fr) >= 2:
                        yield fr.iloc[:len(fr) // 2]
                        yield fr.iloc[len(fr) // 2:]
                    else:
                        yield fr
                frames = {nm: _gen(fr, q % 2 == 1) for q, (nm, fr) in enumerate(frames.items())}
        order = {True: ["chrom", "start", "end", "cov"], "first": ["cov", "chrom", "start", "end"], "middle": ["chrom", "start", "cov", "end"]}
        if per_cell == "once+extra":
            # ONE common table that carries an extra column (placed between the coordinates): every cell must carry it
            b = build.bins_df(bins)
            b["cov"] = [7.0 + k for k in range(n)]
            barg = b[["chrom", "cov", "start", "end"]]
        elif per_cell:
            bdict = {}
            for q, nm in enumerate(names):
                b = build.bins_df(bins)
                b["cov"] = [10.0 * (q + 1) + k for k in range(n)]
                b = b[order[per_cell]].copy()        # the extra column at the end, first, or between the coordinate columns
                # two more per-cell columns whose values are NEARLY the same in every cell (relative difference 1e-9; magnitudes 1e-12):
                # 'kept per cell' means the exact values given for that cell
                b["w"] = [_near(q, k) for k in range(n)]
                b["tiny"] = [_tiny(q, k) for k in range(n)]
                # the per-cell tables carry DIFFERENT row labels (default, reversed, offset, all equal): rows are matched by position
                lab = (q * (1 + kk % 3)) % 4          # first cell: default labels; later cells cycle through the other three
                if lab == 1:
                    b = b.set_axis(list(range(n - 1, -1, -1)))
                elif lab == 2:
                    b = b.set_axis(list(range(100, 100 + n)))
                elif lab == 3:
                    b = b.set_axis([0] * n)
                bdict[nm] = b
            barg = bdict
        else:
            barg = build.bins_df(bins)
        p = scratch.fresh(".scool")
        try:
            try:
                cooler.create_scool(p, barg, frames, symmetric_upper=symm, ordered=True, **extra_kw)
            except Exception as e:
                R.mismatch("create_scool-raises:" + type(e).__name__, inner, f"{e!s:.300}")
                continue
            try:
                cells = fileops.list_scool_cells(p)
                if sorted(cells) != sorted("/cells/" + nm for nm in names) or len(cells) != len(set(cells)):
                    R.mismatch("cell-listing!=cells-given", inner, f"got={cells} want={names}")
                    continue
                if fileops.is_scool_file(p) is not True:
                    R.mismatch("not-recognised-as-single-cell-file", inner, "")
                with h5py.File(p, "r") as f:
                    root_addr = {c: h5py.h5o.get_info(f["bins"][c].id).addr for c in ("chrom", "start", "end")}
                    for nm in names:
                        for c in ("chrom", "start", "end"):
                            a = h5py.h5o.get_info(f["cells"][nm]["bins"][c].id).addr
                            if a != root_addr[c]:
                                R.mismatch("common-bin-table-not-shared", {**inner, "cell": nm}, f"bins/{c} of the cell is a separate object")
                                break
                    rb = list(zip([x for x in f["bins/chrom"][:]], f["bins/start"][:].tolist(), f["bins/end"][:].tolist()))
                    if [(s, e) for _, s, e in rb] != [(b[1], b[2]) for b in bins]:
                        R.mismatch("root-bin-table!=common-table", inner, f"{rb}")
                # history: a bin column is then added to the FIRST cell only (what storing balancing weights does); it must not
                # appear in the root table nor in any other cell
                with h5py.File(p, "r+") as f:
                    f["cells"][names[0]]["bins"].create_dataset("probe", data=np.arange(n, dtype=float))
                with h5py.File(p, "r") as f:
                    leaked = [w for w in ["/bins"] + ["/cells/" + nm + "/bins" for nm in names[1:]] if "probe" in f[w]]
                if leaked:
                    R.mismatch("column-added-to-one-cell-appears-elsewhere", inner, f"{leaked}")
                for q, nm in enumerate(names):
                    uri = p + "::/cells/" + nm
                    ci = {**inner, "cell": nm}
                    clr = cooler.Cooler(uri)
                    df = clr.pixels()[:]
                    got = {(a, b): c for a, b, c in zip(df["bin1_id"].tolist(), df["bin2_id"].tolist(), df["count"].tolist())}
                    want = {k: v["count"] + (0.5 if rich else 0) for k, v in pix[nm].items()}
                    if got != want or len(df) != len(want):
                        R.mismatch("cell-pixels!=its-input", ci, f"got={got} want={want}")
                    if rich:
                        gs = dict(zip(zip(df["bin1_id"].tolist(), df["bin2_id"].tolist()), df["score"].tolist())) if "score" in df.columns else None
                        if gs != {k: v["score"] for k, v in pix[nm].items()}:
                            R.mismatch("cell-extra-value-column!=its-input", ci, f"got={gs}")
                        info = clr.info
                        if info.get("genome-assembly") != "asmS" or info.get("metadata") != {"run": kk, "who": "ß"}:
                            R.mismatch("cell-assembly-or-metadata!=given", ci, f"assembly={info.get('genome-assembly')!r} metadata={info.get('metadata')!r}")
                    bt = clr.bins()[:]
                    if list(zip(bt["chrom"].astype(str), bt["start"].tolist(), bt["end"].tolist())) != [tuple(b) for b in bins]:
                        R.mismatch("cell-bins!=common-table", ci, "")
                    if per_cell == "once+extra":
                        if "cov" not in bt.columns or bt["cov"].tolist() != [7.0 + k for k in range(n)]:
                            R.mismatch("extra-column-of-the-common-table-lost", ci, f"{bt['cov'].tolist() if 'cov' in bt.columns else 'missing'}")
                    elif per_cell:
                        if "cov" not in bt.columns or bt["cov"].tolist() != [10.0 * (q + 1) + k for k in range(n)]:
                            R.mismatch("per-cell-bin-column-not-kept-per-cell", ci, f"{bt['cov'].tolist() if 'cov' in bt.columns else 'missing'}")
                        for col, fn in (("w", _near), ("tiny", _tiny)):
                            if col not in bt.columns or bt[col].tolist() != [fn(q, k) for k in range(n)]:
                                R.mismatch("per-cell-bin-column-not-kept-per-cell:nearly-equal-values", ci, f"{col}: {bt[col].tolist() if col in bt.columns else 'missing'} want {[fn(q, k) for k in range(n)]}")
                    Mx = np.zeros((n, n))
                    for (i, j), v in want.items():
                        Mx[i, j] = v
                        if symm:
                            Mx[j, i] = v
                    if not np.array_equal(clr.matrix(balance=False)[:], Mx):
                        R.mismatch("cell-matrix!=its-input", ci, "")
                    v = h5ref.validate(p, "/cells/" + nm)
                    if v:
                        R.mismatch("V:" + v[0], ci, f"{v}")
            except Exception as e:
                R.mismatch("read-raises:" + type(e).__name__, inner, f"{e!s:.300}")
        finally:
            scratch.rm(p)
    if unit["names"] == [1, 3]:
        R.sample({"table": [list(c) for c in TABLES[ti]], "cells": names, "matrices": [[list(c) for c in m] for m in M],
                  "assignments": "all 4^k", "per_cell_bins": per_cell, "symm": symm})
