"""C02 — every cooler any operation writes is a structurally valid CSR collection (E2 + E1)."""
from __future__ import annotations

import itertools
import os
import shutil

import h5py
import numpy as np
import pandas as pd

from vmc import alpha, build, fixtures as fx, h5ref, models
from vmc.core import scratch, seamprobe
from vmc.core.rec import HarnessError

ID = "C02"
TECHNIQUE = 'explicit-state breadth-first search over histories of producing operations with a schema invariant evaluated on every collection in every state + exhaustive function-level enumeration of the index builders with forced block sizes'
LEVEL = "model_checking"
RULE = ("rle leg: rlencode(a, chunksize=c) for EVERY array over {0,1,2} of length <=7 (3280 arrays) x c=1..8 against itertools.groupby; "
        "index leg: index_pixels / index_bins on a dict-backed group for EVERY non-decreasing id sequence of length <=6 over <=4 bins, "
        "with the internal block size (literal 1e6) forced to 1..7 through the rlencode seam, against a counting-loop indptr; hist leg "
        "(explicit-state search): breadth-first from the empty file over the producing operations create_cooler ordered / unordered at "
        "paths {/, /x, /x/y}, merge_coolers of any two compatible collections, coarsen_cooler (k=2, chunksize 1 and 1e6), "
        "zoomify_cooler into a second file, create_scool into a third, `cooler load` of the collection's own dump, `cload pairs`; after "
        "EVERY transition the schema validator V is evaluated on EVERY collection of EVERY file and the contents are compared with the "
        "reference state (dict-sum merge, block-aggregate coarsening); big leg (thorough): three dense-upper coolers with 1450 bins "
        "(1,051,975 pixels) whose row runs straddle / start at / end at pixel row 1,000,000. Non-trivial: the transition writes a "
        "collection with >=2 pixels. Distinct by construction (state dedup by canonical reference state).")
EXTRA_LEGS = 'alltables: EVERY table of BT(3,4,{1,2,3}) in two name flavours created and coarsened by 2, V on both; narrowids: int8/uint8/int16/uint16 id columns with reversed chunks and sorting requested (one- and two-pass); one 1e6-record boundary cooler in the quick tier.'
BOUNDS = {"quick": "hist depth 2; one 1,051,975-pixel cooler whose row run straddles record 1e6; narrow id dtypes with sorting requested; every table of BT(3,4,W) in two name flavours created and coarsened by 2; one 6000-contig table (integer chromosome column) through each of 7 producing routes; coarsen and zoomify with nproc=2 under every completion order of each pool batch (deviation bound 1)", "thorough": "hist depth 3 + every table of BT(3,5,W) + the three 1e6-row boundary coolers + the 6000-contig table; pool orders with deviation bound 2"}
ASSUMPTIONS = ["V is written against docs/schema_v3.rst with raw h5py only", "two files with the same reference state have the same futures under the alphabet"]
EXPECT_CLASSES = {"*": ["alltables:fixed", "alltables:variable", "manycontigs:integer-chromosome-column", "rle", "index", "op:create", "op:create-unordered", "op:merge", "op:coarsen", "op:zoomify", "op:scool", "op:load", "op:cload"]}

TAB = {"A": ((1, 1, 1, 1), (1, 1)), "B": ((1, 3), (2, 1, 1))}
DATA = {
    0: ("A", True, [(0, 0), (0, 3), (1, 2), (2, 5), (4, 4)]),
    1: ("A", True, [(0, 1), (0, 3), (3, 3), (5, 5)]),
    2: ("B", False, [(0, 0), (3, 1), (2, 2), (4, 0)]),
    3: ("A", True, []),
}
CPATHS = ["/", "/x", "/x/y"]


def bins_of(t):
    return alpha.table_bins(TAB[t], "chr")


def content(d):
    t, symm, cells = DATA[d]
    n = len(bins_of(t))
    return t, symm, {c: alpha.value(n, c[0], c[1]) + 10 * d for c in cells}, 1


def units(tier):
    arrs = [a for L in range(0, 8) for a in itertools.product((0, 1, 2), repeat=L)]
    for lo in range(0, len(arrs), 400):
        yield {"leg": "rle", "lo": lo, "hi": min(len(arrs), lo + 400)}
    for nb in (1, 2, 3, 4):
        yield {"leg": "index", "nbins": nb}
    depth = 3 if tier == "thorough" else 2
    for p in CPATHS:
        for d in DATA:
            for ordered in (True, False):
                yield {"leg": "hist", "first": ["C", p, d, ordered], "depth": depth}
    for perm in range(6):
        yield {"leg": "seqtables", "perm": perm}
    ntab = len(alpha.bin_tables(3, 5 if tier == "thorough" else 4))
    for names in ("abc", "chr"):
        for lo in range(0, ntab, 60):
            yield {"leg": "alltables", "names": names, "lo": lo, "hi": min(ntab, lo + 60), "B": 5 if tier == "thorough" else 4}
    for route in ("ordered", "unordered", "merge", "coarsen", "zoomify", "scool", "load"):
        yield {"leg": "manycontigs", "route": route}
    for op in ("coarsen", "zoomify"):
        for cs in (1, 2, 5):
            yield {"leg": "pool-order", "op": op, "chunksize": cs}
    for k in (range(3) if tier == "thorough" else (0,)):
        yield {"leg": "big", "k": k}
    # narrow bin-id dtypes on tables just large enough that bin1*n_bins+bin2 leaves the dtype, chunks with rows in decreasing order
    # and sorting requested, through the one-pass and the two-pass route
    for dt, n in (("int8", 13), ("uint8", 17), ("int16", 190), ("uint16", 260)):
        yield {"leg": "narrowids", "dtype": dt, "n": n}


# ---- function level ------------------------------------------------------------------------------
def _index_probe():
    import cooler.create._create as Cm
    Cm.rlencode
    Cm.index_pixels({"bin1_id": np.array([0], dtype=np.int64)}, 1, 1)
    Cm.index_bins({"chrom": np.array([0], dtype=np.int32)}, 1, 1)
    from cooler.util import rlencode
    rlencode(np.array([0, 0, 1], dtype=np.int64), 2)


def _rle(R, unit, only):
    if not seamprobe.internal_ok(R, "C02:index-builders", _index_probe):
        return
    from cooler.util import rlencode
    arrs = [a for L in range(0, 8) for a in itertools.product((0, 1, 2), repeat=L)][unit["lo"]:unit["hi"]]
    R.add("states", len(arrs))
    R.add("traces", len(arrs))
    for q, a in enumerate(arrs):
        ws, wl, wv = models.ref_rle(list(a))
        for c in range(1, 9):
            inner = {"array": list(a), "chunksize": c}
            if only is not None and only != inner:
                continue
            R.c["evaluations"] += 1
            R.c["nontrivial"] += len(a) > c
            R.c["transitions"] += 1
            R.classes["rle"] += 1
            try:
                s, l, v = rlencode(np.array(a, dtype=np.int64), c)
                if s.tolist() != ws or l.tolist() != wl or v.tolist() != wv:
                    R.order = (R.order[0], q * 8 + c)
                    R.mismatch("rlencode!=groupby", inner, f"got={(s.tolist(), l.tolist(), v.tolist())} want={(ws, wl, wv)}")
            except Exception as e:
                R.mismatch("rlencode-raises:" + type(e).__name__, inner, f"{e!s:.200}")
        if not a or only is not None:
            continue
        try:
            s, l, v = rlencode(np.array(a, dtype=np.int64))
            if s.tolist() != ws or l.tolist() != wl or v.tolist() != wv:
                R.mismatch("rlencode!=groupby", {"array": list(a), "chunksize": None}, "")
        except Exception as e:
            R.mismatch("rlencode-raises:" + type(e).__name__, {"array": list(a), "chunksize": None}, f"{e!s:.200}")


def _index(R, nb, only):
    if not seamprobe.internal_ok(R, "C02:index-builders", _index_probe):
        return
    import cooler.create._create as Cm
    orig = Cm.rlencode
    R.add("traces")
    seqs = [s for L in range(0, 7) for s in itertools.combinations_with_replacement(range(nb), L)]
    R.add("states", len(seqs))
    try:
        for q, seq in enumerate(seqs):
            want = models.ref_indptr(list(seq), nb)
            for b in range(1, 8):
                inner = {"nbins": nb, "ids": list(seq), "block": b}
                if only is not None and only != inner:
                    continue
                R.c["evaluations"] += 1
                R.c["nontrivial"] += len(seq) > b
                R.c["transitions"] += 2
                R.classes["index"] += 1
                Cm.rlencode = lambda arr, cs=None, b=b: orig(arr, b if cs == 1000000 else cs)
                try:
                    off = Cm.index_pixels({"bin1_id": np.array(seq, dtype=np.int64)}, nb, len(seq))
                    if [int(x) for x in off] != want:
                        R.order = (R.order[0], q * 8 + b)
                        R.mismatch("bin1_offset!=run-length-index", inner, f"got={[int(x) for x in off]} want={want}")
                    coff = Cm.index_bins({"chrom": np.array(seq, dtype=np.int32)}, nb, len(seq))
                    if [int(x) for x in coff] != want:
                        R.mismatch("chrom_offset!=run-length-index", inner, f"got={[int(x) for x in coff]} want={want}")
                except Exception as e:
                    R.mismatch("index-raises:" + type(e).__name__, inner, f"{e!s:.200}")
    finally:
        Cm.rlencode = orig


# ---- histories -----------------------------------------------------------------------------------
def pixframe(pix):
    keys = sorted(pix)
    return pd.DataFrame({"bin1_id": np.array([k[0] for k in keys], dtype=np.int64), "bin2_id": np.array([k[1] for k in keys], dtype=np.int64),
                         "count": np.array([pix[k] for k in keys], dtype=np.int64)})


def enabled(state):
    """state: {path: (table, symm, pix, factor)} -> list of ops"""
    ops = []
    for p in CPATHS:
        for d in DATA:
            for o in (True, False):
                ops.append(["C", p, d, o])
    paths = sorted(state)
    for a, b in itertools.combinations_with_replacement(paths, 2):
        if state[a][0] == state[b][0] and state[a][1] == state[b][1] and state[a][3] == state[b][3]:
            for p in ("/m1", "/x/m2"):
                if p not in state:
                    ops.append(["M", a, b, p])
                    break
    for a in paths:
        nb = len(models.ref_coarsen(bins_of(state[a][0]), {}, state[a][3])[0]) if state[a][3] > 1 else len(bins_of(state[a][0]))
        if nb >= 2:
            for cs in (1, 10 ** 6):
                for p in ("/k1", "/x/k2"):
                    if p not in state:
                        ops.append(["K", a, p, cs])
                        break
        if state[a][3] == 1:
            ops.append(["Z", a])
            ops.append(["L", a])
            ops.append(["P", a])
            for b in paths:
                if b >= a and state[b][3] == 1 and state[b][0] == state[a][0] and state[b][1] == state[a][1]:
                    ops.append(["S", a, b])
    return ops


def cur_bins(st):
    t, symm, pix, factor = st
    b = bins_of(t)
    return b if factor == 1 else models.ref_coarsen(b, {}, factor)[0]


def apply(op, f1, wd, state):
    """run the real operation; -> (new reference state, list of (file, group, expected (bins, pix, symm) or None))"""
    import cooler
    st = dict(state)
    outs = []
    kind = op[0]
    if kind == "C":
        _, p, d, ordered = op
        t, symm, pix, _ = content(d)
        bdf = build.bins_df(bins_of(t))
        if ordered:
            # a whole data frame may come in any row order (create_cooler must sort it): rows grouped by bin1 ascending but with
            # bin2 DESCENDING inside each row for data sets 0/2, fully reversed for data set 1
            fr = pixframe(pix)
            if d in (0, 2):
                fr = fr.sort_values(["bin1_id", "bin2_id"], ascending=[True, False]).reset_index(drop=True)
            elif d == 1:
                fr = fr.iloc[::-1].reset_index(drop=True)
            cooler.create_cooler(f1 + "::" + p, bdf, fr if p != "/x/y" else {c: fr[c].values for c in fr.columns}, ordered=True,
                                 symmetric_upper=symm, mode="a")
        else:
            keys = sorted(pix)
            half = len(keys) // 2
            chunks = [pixframe({k: pix[k] for k in keys[half:]}), pixframe({k: pix[k] for k in keys[:half]})]
            cooler.create_cooler(f1 + "::" + p, bdf, iter(chunks), ordered=False, symmetric_upper=symm, mode="a", mergebuf=1, temp_dir=wd)
        # re-creating at a non-root path removes everything below it; at the root only the four tables
        for q in list(st):
            if p != "/" and (q == p or q.startswith(p + "/")):
                del st[q]
        st[p] = (t, symm, pix, 1)
        outs.append((f1, p))
    elif kind == "M":
        _, a, b, p = op
        # the merger keeps its inputs open read-only, so they are read from a copy of the file and the result is appended to F1
        src = os.path.join(wd, "F1.inputs.cool")
        shutil.copy(f1, src)
        # an EMPTY member on the same axes sits between the two inputs (it must contribute nothing and disturb nothing)
        cooler.coarsen_cooler  # noqa (keeps the import obviously used)
        eb = cur_bins(state[a])
        cooler.create_cooler(src + "::/__empty__", build.bins_df(eb), pixframe({}), ordered=True, symmetric_upper=state[a][1], mode="a")
        cooler.merge_coolers(f1 + "::" + p, [src + "::" + a, src + "::/__empty__", src + "::" + b, src + "::/__empty__"], mergebuf=2, mode="a")
        os.remove(src)
        st[p] = (state[a][0], state[a][1], models.ref_merge([state[a][2], state[b][2]]), state[a][3])
        outs.append((f1, p))
    elif kind == "K":
        _, a, p, cs = op
        cooler.coarsen_cooler(f1 + "::" + a, f1 + "::" + p, 2, chunksize=cs, mode="a")
        _, pix2 = models.ref_coarsen(cur_bins(state[a]), state[a][2], 2)
        st[p] = (state[a][0], state[a][1], pix2, state[a][3] * 2)
        outs.append((f1, p))
    elif kind == "Z":
        _, a = op
        f2 = os.path.join(wd, "zoom.mcool")
        base = 1
        cooler.zoomify_cooler(f1 + "::" + a, f2, [base, 2 * base, 4 * base], chunksize=3)
        for r in (1, 2, 4):
            outs.append((f2, f"/resolutions/{r}", (state[a], r)))
    elif kind == "S":
        _, a, b = op
        f3 = os.path.join(wd, "cells.scool")
        cooler.create_scool(f3, build.bins_df(bins_of(state[a][0])), {"cellA": pixframe(state[a][2]), "cellB": pixframe(state[b][2])},
                            symmetric_upper=state[a][1], ordered=True)
        outs.append((f3, "/cells/cellA", (state[a], 1)))
        outs.append((f3, "/cells/cellB", (state[b], 1)))
    elif kind in ("L", "P"):
        _, a = op
        t, symm, pix, _ = state[a]
        bins = bins_of(t)
        bed = os.path.join(wd, "bins.bed")
        with open(bed, "w") as fh:
            for bb in bins:
                fh.write("\t".join(str(x) for x in bb) + "\n")
        f4 = os.path.join(wd, "loaded.cool")
        if kind == "L":
            code, so, exc = build.cli(["dump", f1 + "::" + a])
            if code != 0 or exc is not None:
                raise RuntimeError(f"dump failed: {exc!r}")
            txt = os.path.join(wd, "d.coo")
            with open(txt, "w") as fh:
                fh.write(so)
            code, so, exc = build.cli(["load", "-f", "coo", "--chunksize", 2, "--temp-dir", wd] + ([] if symm else ["-N"]) + [bed, txt, f4])
            if code != 0 or exc is not None:
                raise RuntimeError(f"load failed: {exc!r}")
            outs.append((f4, "/", ((t, symm, pix, 1), 1)))
        else:
            txt = os.path.join(wd, "d.pairs")
            with open(txt, "w") as fh:
                for (i, j), v in sorted(pix.items()):
                    for _ in range(v % 4 + 1):
                        fh.write(f".\t{bins[i][0]}\t{bins[i][1]}\t{bins[j][0]}\t{bins[j][1]}\n")
            code, so, exc = build.cli(["cload", "pairs", "--zero-based", "-c1", 2, "-p1", 3, "-c2", 4, "-p2", 5, "--chunksize", 3, "--temp-dir", wd]
                                      + ([] if symm else ["-N"]) + [bed, txt, f4])
            if code != 0 or exc is not None:
                raise RuntimeError(f"cload failed: {exc!r}")
            outs.append((f4, "/", ((t, symm, {k: v % 4 + 1 for k, v in pix.items()}, 1), 1)))
    return st, outs


def judge_collection(R, inner, f, grp, st, extra_factor=1):
    v = h5ref.validate(f, grp)
    if v:
        R.mismatch("V:" + v[0].split(":")[1], {**inner, "file": os.path.basename(f), "group": grp}, f"{v}")
        return False
    t, symm, pix, factor = st
    bins = cur_bins(st)
    if extra_factor > 1:
        bins2, pix2 = models.ref_coarsen(bins, pix, extra_factor)
    else:
        bins2, pix2 = bins, pix
    rd = h5ref.read_collection(f, grp)
    got = {k: rows[0]["count"] for k, rows in rd["pixrows"].items()}
    if [tuple(b) for b in rd["bins"]] != [tuple(b) for b in bins2] or got != pix2:
        R.mismatch("content!=reference-state", {**inner, "file": os.path.basename(f), "group": grp}, f"got={got} want={pix2}")
        return False
    if rd["attrs"].get("storage-mode") != ("symmetric-upper" if symm else "square"):
        R.mismatch("storage-mode", {**inner, "group": grp}, str(rd["attrs"].get("storage-mode")))
    return True


def _hist(R, unit, only):
    root = scratch.sub(f"c02_{os.getpid()}_{abs(hash(str(unit['first']))) % 10 ** 8}")
    depth = unit["depth"]
    try:
        os.makedirs(os.path.join(root, "s0"))
        frontier = [([], os.path.join(root, "s0"), {})]
        seen = {"{}"}
        ns = 0
        for level in range(1, depth + 1):
            nxt = []
            for hist, d, state in frontier:
                ops = [unit["first"]] if level == 1 else enabled(state)
                for op in ops:
                    h2 = hist + [op]
                    inner = {"history": h2}
                    if only is not None and only.get("history") is not None and h2 != only["history"][:len(h2)]:
                        continue
                    ns += 1
                    d2 = os.path.join(root, f"s{ns}")
                    os.makedirs(d2)
                    f1 = os.path.join(d2, "F1.cool")
                    if os.path.exists(os.path.join(d, "F1.cool")):
                        shutil.copy(os.path.join(d, "F1.cool"), f1)
                    R.order = (R.order[0], ns)
                    R.c["evaluations"] += 1
                    R.c["transitions"] += 1
                    kindname = {"C": "create" if op[-1] is True else "create-unordered", "M": "merge", "K": "coarsen", "Z": "zoomify", "S": "scool",
                                "L": "load", "P": "cload"}[op[0]]
                    R.classes["op:" + kindname] += 1
                    R.classes["depth:%d" % level] += 1
                    try:
                        st2, outs = apply(op, f1, d2, state)
                    except Exception as e:
                        R.mismatch("operation-raises:" + type(e).__name__, inner, f"{op}: {e!s:.300}")
                        shutil.rmtree(d2, ignore_errors=True)
                        continue
                    good = True
                    # V on every collection of F1 (the whole reference state), and on the other files written by this step
                    for p, st in sorted(st2.items()):
                        R.c["collections_validated"] += 1
                        good &= judge_collection(R, inner, f1, p, st)
                    for o in outs:
                        if len(o) == 3:
                            R.c["collections_validated"] += 1
                            good &= judge_collection(R, inner, o[0], o[1], o[2][0], o[2][1])
                    # nothing else may be recognised as a collection in F1
                    try:
                        from cooler import fileops
                        lst = fileops.list_coolers(f1) if os.path.exists(f1) else []
                        if sorted(lst) != sorted(st2):
                            R.mismatch("collections-in-file!=reference-state", inner, f"got={lst} want={sorted(st2)}")
                            good = False
                    except Exception as e:
                        R.mismatch("list_coolers-raises", inner, f"{e!s:.100}")
                    R.c["nontrivial"] += any(len(s[2]) >= 2 for s in st2.values())
                    R.c["traces"] += 1
                    c = repr(sorted((p, s[0], s[1], sorted(s[2].items()), s[3]) for p, s in st2.items()))
                    if good and c not in seen and level < depth:
                        seen.add(c)
                        nxt.append((h2, d2, st2))
                    else:
                        shutil.rmtree(d2, ignore_errors=True)
            frontier = nxt
        R.c["states"] += len(seen)
        if unit["first"] == ["C", "/x", 0, True]:
            R.sample({"leg": "hist", "first": unit["first"], "depth": depth, "example_history": [unit["first"], ["K", "/x", "/k1", 1], ["M", "/k1", "/k1", "/m1"]]})
    finally:
        scratch.rm(root)


SEQT = [((2, 2), (2,)), ((1, 3), (2,)), ((3, 1), (2,))]     # fixed width 2 | variable | variable: same chromosome sizes (4, 2), 3 bins each


def _seqtables(R, perm, only):
    """collections on DIFFERENT bin tables that share chromosome names, lengths and bin count, created one after the other in one
    process (ordered and unordered), in every order: the recorded bin type / bin size must follow each table"""
    import cooler
    order = list(itertools.permutations(range(3)))[perm]
    R.add("states")
    R.add("traces")
    p = scratch.fresh()
    try:
        for rnd in range(2):
            for step, ti in enumerate(order):
                bins = alpha.table_bins(SEQT[ti], "chr")
                pix = {(0, 0): 1 + ti, (0, 2): 5, (1, 1): 2, (2, 2): 7}
                inner = {"round": rnd, "step": step, "table": ti}
                R.order = (R.order[0], rnd * 3 + step)
                R.ev(1, 1 if (rnd or step) else 0)
                R.add("transitions")
                R.cls("seqtables")
                grp = "/" if step == 0 and rnd == 0 else f"/t{rnd}{step}"
                try:
                    if rnd == 0:
                        cooler.create_cooler(p + "::" + grp, build.bins_df(bins), pixframe(pix), ordered=True, mode="w" if grp == "/" else "a")
                    else:
                        keys = sorted(pix)
                        cooler.create_cooler(p + "::" + grp, build.bins_df(bins), iter([pixframe({k: pix[k] for k in keys[2:]}), pixframe({k: pix[k] for k in keys[:2]})]),
                                             ordered=False, mode="a", mergebuf=1)
                except Exception as e:
                    R.mismatch("operation-raises:" + type(e).__name__, inner, f"{e!s:.200}")
                    continue
                v = h5ref.validate(p, grp)
                if v:
                    R.mismatch("V:" + v[0].split(":")[1], {**inner, "group": grp}, f"{v}")
    finally:
        scratch.rm(p)


def _alltables(R, unit, only):
    """EVERY bin table of BT(3,B,{1,2,3}) (one-bin contigs before / between / after multi-bin ones, shorter and LONGER last bins,
    variable widths; names whose lexical order agrees / disagrees with the table order): created directly and coarsened by 2
    (a second route to a bin table); V on both - in particular 'recorded bin type and bin size agree with the stored tables'."""
    import cooler
    tabs = alpha.bin_tables(3, unit["B"])[unit["lo"]:unit["hi"]]
    p = scratch.fresh()
    try:
        for q, t in enumerate(tabs):
            bins = alpha.table_bins(t, unit["names"])
            n = len(bins)
            inner = {"table": [list(c) for c in t]}
            if only is not None and only.get("table") != inner["table"]:
                continue
            R.order = (R.order[0], q)
            R.add("states")
            R.add("traces")
            R.ev(2, 2)
            R.add("transitions", 2)
            R.cls("alltables:" + ("fixed" if models.ref_true_binsize(bins) is not None else "variable"))
            pix = {(0, 0): 1, (0, n - 1): 2, (n - 1, n - 1): 3, (n // 2, n - 1): 4}
            try:
                cooler.create_cooler(p, build.bins_df(bins), pixframe(pix), ordered=True, mode="w")
                cooler.coarsen_cooler(p, p + "::/k2", 2, chunksize=1000000)
            except Exception as e:
                R.mismatch("operation-raises:" + type(e).__name__, inner, f"{e!s:.200}")
                continue
            for grp in ("/", "/k2"):
                v = h5ref.validate(p, grp)
                if v:
                    R.mismatch("V:" + v[0].split(":")[1], {**inner, "group": grp}, f"{v}")
            with h5py.File(p, "r") as f:
                R.outcome((str(f.attrs["bin-type"]), str(f.attrs["bin-size"]), str(f["k2"].attrs["bin-type"])))
    finally:
        scratch.rm(p)


def _narrowids(R, unit, only):
    import cooler
    dt, n = unit["dtype"], unit["n"]
    bins = [("chr2", i * 3, (i + 1) * 3) for i in range(n - 2)] + [("chr10", 0, 3), ("chr10", 3, 5)]
    cells = sorted({(0, 0), (0, 1), (0, n - 1), (1, 2), (1, n - 2), (n // 2, n // 2), (n // 2, n - 1), (n - 3, n - 2), (n - 2, n - 2), (n - 2, n - 1), (n - 1, n - 1)})
    R.add("states")
    R.add("traces")
    for route in ("ordered", "unordered"):
        inner = {"dtype": dt, "n": n, "route": route}
        if only is not None and only != inner:
            continue
        R.ev(1, 1)
        R.add("transitions")
        R.cls("narrowids")
        keys = cells[::-1]
        h = len(keys) // 2
        d = {"bin1_id": np.array([k[0] for k in keys], dtype=dt), "bin2_id": np.array([k[1] for k in keys], dtype=dt), "count": np.arange(1, len(keys) + 1, dtype=np.int32)}
        lo, hi = pd.DataFrame({c: v[h:] for c, v in d.items()}), pd.DataFrame({c: v[:h] for c, v in d.items()})
        p = scratch.fresh()
        try:
            try:
                if route == "ordered":
                    cooler.create_cooler(p, build.bins_df(bins), iter([lo, hi]), ordered=True, ensure_sorted=True)
                else:
                    cooler.create_cooler(p, build.bins_df(bins), iter([hi, lo]), ordered=False, ensure_sorted=True, mergebuf=2)
            except Exception as e:
                R.mismatch("operation-raises:" + type(e).__name__, inner, f"{e!s:.200}")
                continue
            v = h5ref.validate(p, "/")
            if v:
                R.mismatch("V:" + v[0].split(":")[1], inner, f"{v}")
        finally:
            scratch.rm(p)


def _big(R, k, only):
    """dense upper matrix on 1450 bins: 1,051,975 pixels; pixel row 1,000,000 falls inside the run of one bin1 value. The value
    layout is shifted so that a run straddles / starts at / ends at row 1e6."""
    import cooler
    n = 1450
    R.add("states")
    R.add("traces")
    R.ev(1, 1)
    R.add("transitions")
    R.cls("big")
    i, j = np.triu_indices(n)
    # row r of the pixel table belongs to bin1 = i[r]; find the bin1 whose run contains row 1e6
    cut = 1000000
    b = int(i[cut])
    start_of_b = int(np.searchsorted(i, b))
    nxt = int(np.searchsorted(i, b + 1))                         # first row of the next run (start_of_b < cut < nxt)
    keep = np.ones(len(i), dtype=bool)
    if k == 1:
        keep[1:1 + (nxt - cut)] = False                          # the next run now STARTS exactly at row 1e6 (block boundary between runs)
    elif k == 2:
        keep[1:1 + (nxt - cut - 1)] = False                      # the last element of a run sits exactly AT row 1e6
    # k == 0: the run of bin b straddles row 1e6
    i2, j2 = i[keep], j[keep]
    bins = build.bins_df([("chr1", q * 10, (q + 1) * 10) for q in range(1000)] + [("chr2", q * 10, (q + 1) * 10) for q in range(450)])
    p = scratch.fresh()
    try:
        step = 300000
        chunks = ({"bin1_id": i2[a:a + step], "bin2_id": j2[a:a + step], "count": np.ones(len(i2[a:a + step]), dtype=np.int32)} for a in range(0, len(i2), step))
        cooler.create_cooler(p, bins, chunks, ordered=True, h5opts={"compression": None, "shuffle": False})
        v = h5ref.validate(p)
        if v:
            R.mismatch("V:" + v[0], {"k": k}, f"{v}")
        with h5py.File(p, "r") as f:
            off = f["indexes/bin1_offset"][:]
            R.outcome((k, int(off[b]), int(off[b + 1]), len(i2)))
            if len(i2) <= cut:
                R.mismatch("harness:not-enough-pixels", {"k": k}, str(len(i2)))
    finally:
        scratch.rm(p)


def _pool_order(R, unit, tier, only):
    """E3: coarsen / zoomify with nproc=2 under the virtual pool; at every pool call of a run every completion order of the
    submitted batch is an alternative (deviation bound 1, thorough 2). The schema must hold for every collection written under
    every schedule explored."""
    import cooler
    from cooler import fileops
    from vmc.seams import sched
    bound = 2 if tier == "thorough" else 1
    op, cs = unit["op"], unit["chunksize"]
    bins = alpha.table_bins(((1, 1, 1, 1), (1, 1)), "chr")
    n = len(bins)
    pix = fx.pixvals(alpha.cells(n, True), n)
    src = fx.make(("c02-pool", 0), bins, pix)
    R.add("states")
    R.add("traces")

    def run(ch):
        mon = sched.Monitor()
        vl, restore = sched.patch_reduce(mon, ch)
        out = scratch.fresh()
        err = None
        try:
            if op == "coarsen":
                cooler.coarsen_cooler(src, out, 2, chunksize=cs, nproc=2)
            else:
                cooler.zoomify_cooler(src, out, [2, 4], chunksize=cs, nproc=2)
        except sched.Deadlock:
            err = "deadlock"
        except Exception as e:
            err = f"{type(e).__name__}: {e!s:.200}"
        finally:
            restore()
        return out, err

    kk = 0
    for ch, (out, err) in sched.explore(run, bound):
        kk += 1
        choices = [c for (_, c, _) in ch.trace]
        inner = {"choices": choices}
        try:
            if only is not None and only != inner:
                continue
            R.order = (R.order[0], kk)
            R.ev(1, 1 if any(choices) else 0)
            R.add("transitions")
            R.add("schedules")
            R.cls("pool-order:" + op)
            if err:
                R.mismatch("pool-order:raises", inner, err)
                continue
            for g in (["/"] if op == "coarsen" else fileops.list_coolers(out)):
                v = h5ref.validate(out, g)
                if v:
                    R.mismatch("V:" + v[0], {**inner, "group": g}, f"{v[:3]}")
            R.outcome((op, cs, len(choices)))
        finally:
            scratch.rm(out)


def _manycontigs(R, route, only):
    """6000 one- and two-bin contigs with 23-character names: too many for an HDF5 enum header, so the LIBRARY stores bins/chrom as
    plain integers (enum_path attribute) - the other side of a size threshold no small table reaches. Every producing route must still
    satisfy the schema, with the chromosome column equal to the contig numbers."""
    import cooler
    from vmc import build as B
    N = 6000
    names = [f"scaffold_{k:05d}_xxxxxxxx" for k in range(N)]
    rows = []
    for k, nm in enumerate(names):
        rows.append((nm, 0, 10))
        if k % 1000 == 7:
            rows.append((nm, 10, 15))
    bdf = pd.DataFrame(rows, columns=["chrom", "start", "end"])
    nb = len(bdf)
    cells = [(0, 0), (0, nb - 1), (1, 1), (7, 8), (8, 9), (nb - 2, nb - 1), (nb - 1, nb - 1)]
    pix = pd.DataFrame({"bin1_id": [c[0] for c in cells], "bin2_id": [c[1] for c in cells], "count": [3, 1, 4, 1, 5, 9, 2]})
    R.add("states")
    R.add("traces")
    R.ev(1, 1)
    R.add("transitions")
    R.cls("manycontigs:" + route)
    d = scratch.sub(f"c02mc_{route}")
    inner = {"route": route}
    try:
        src = os.path.join(d, "src.cool")
        out = os.path.join(d, "out.cool")
        grp = "/"
        want_chrom_of_bin = np.repeat(np.arange(N), [2 if k % 1000 == 7 else 1 for k in range(N)])
        if route == "ordered":
            cooler.create_cooler(out, bdf, pix, ordered=True)
        elif route == "unordered":
            cooler.create_cooler(out, bdf, iter([pix.iloc[4:], pix.iloc[:4]]), ordered=False, temp_dir=d)
        elif route == "merge":
            cooler.create_cooler(src, bdf, pix, ordered=True)
            cooler.merge_coolers(out, [src, src], mergebuf=3)
        elif route == "coarsen":
            cooler.create_cooler(src, bdf, pix, ordered=True)
            cooler.coarsen_cooler(src, out, 2, chunksize=3)
            want_chrom_of_bin = np.arange(N)
        elif route == "zoomify":
            b10 = pd.DataFrame({"chrom": names, "start": 0, "end": 10})
            cooler.create_cooler(src, b10, pd.DataFrame({"bin1_id": [0, 5, N - 2], "bin2_id": [0, 7, N - 1], "count": [1, 2, 3]}), ordered=True)
            cooler.zoomify_cooler(src, out, [20], chunksize=2)
            grp = "/resolutions/20"
            want_chrom_of_bin = np.arange(N)
        elif route == "scool":
            cooler.create_scool(out, bdf, {"cellA": pix, "cellB": pix.iloc[:3]})
            grp = "/cells/cellB"
        elif route == "load":
            bed = os.path.join(d, "bins.bed")
            bdf.to_csv(bed, sep="\t", header=False, index=False)
            coo = os.path.join(d, "in.coo")
            pix.to_csv(coo, sep="\t", header=False, index=False)
            code, so, exc = B.cli(["load", "-f", "coo", "--temp-dir", d, bed, coo, out])
            if code != 0 or exc is not None:
                R.mismatch("load-fails", inner, f"code={code} exc={exc!r:.200}")
                return
        v = h5ref.validate(out, grp)
        if v:
            R.mismatch("V:" + v[0], inner, f"{v[:3]}")
        with h5py.File(out, "r") as f:
            g = f[grp]
            cid = g["bins/chrom"][:].astype(np.int64)
            nm = [x.decode() if isinstance(x, bytes) else str(x) for x in g["chroms/name"][:]]
            enum = h5py.check_dtype(enum=g["bins/chrom"].dtype)
            if enum is not None:
                back = {v: k for k, v in enum.items()}
                ok = [back[int(c)] for c in cid] == [names[k] for k in want_chrom_of_bin]
            else:
                R.cls("manycontigs:integer-chromosome-column")
                ok = cid.tolist() == want_chrom_of_bin.tolist()
            if nm != names:
                R.mismatch("chromosome-names!=input", inner, f"{nm[:3]}..{nm[-2:]}")
            if not ok:
                R.mismatch("bin-chromosome-column!=contig-of-each-bin", inner, f"first ids {cid[:12].tolist()} want {want_chrom_of_bin[:12].tolist()}")
        # the ordinary interface names the same contigs
        c = cooler.Cooler(out + "::" + grp)
        last = c.bins()[len(want_chrom_of_bin) - 2:]
        if [str(x) for x in last["chrom"]] != [names[k] for k in want_chrom_of_bin[-2:]] or list(last.index) != [len(want_chrom_of_bin) - 2, len(want_chrom_of_bin) - 1]:
            R.mismatch("bins()-of-last-contigs", inner, f"{last.values.tolist()} index={list(last.index)}")
        one = c.bins()["chrom"][7:10]
        if [str(x) for x in one] != [names[k] for k in want_chrom_of_bin[7:10]] or list(one.index) != [7, 8, 9]:
            R.mismatch("bins()['chrom']-slice", inner, f"{list(one)} index={list(one.index)}")
        if c.extent(names[-1]) != (len(want_chrom_of_bin) - 1, len(want_chrom_of_bin)):
            R.mismatch("extent-of-last-contig", inner, f"{c.extent(names[-1])}")
        R.outcome((route, enum is None, int(c.info["nnz"])))
    finally:
        scratch.rm(d)


def seams():
    pass    # the index-builder legs probe their internal entry points themselves and are skipped (recorded as a cap) if those were refactored


def run(unit, R, tier, only=None):
    leg = unit["leg"]
    if leg == "rle":
        _rle(R, unit, only)
        R.sample({"leg": "rle", "arrays": "all over {0,1,2} up to length 7", "chunksize": "1..8"})
    elif leg == "index":
        _index(R, unit["nbins"], only)
    elif leg == "hist":
        _hist(R, unit, only)
    elif leg == "big":
        _big(R, unit["k"], only)
    elif leg == "manycontigs":
        _manycontigs(R, unit["route"], only)
    elif leg == "pool-order":
        _pool_order(R, unit, tier, only)
    elif leg == "seqtables":
        _seqtables(R, unit["perm"], only)
    elif leg == "narrowids":
        _narrowids(R, unit, only)
    elif leg == "alltables":
        _alltables(R, unit, only)
    else:
        raise ValueError(leg)
