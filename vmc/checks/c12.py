"""C12 — balanced reads equal raw values times the two bin weights (E1)."""
from __future__ import annotations

import os

import h5py
import numpy as np

from vmc import alpha, build, fixtures as fx
from vmc.core import scratch

ID = "C12"
LEVEL = "model_checking"
RULE = ("coolers with n=4 (quick) / 4 and 5 (thorough) bins in two chromosomes, both storage modes, structured matrices; weight columns "
        "weight, KR, VC, custom with pairwise distinct values 0.5..3 and NaN in EVERY subset of positions (the subset rotates between "
        "the columns) x ALL windows x output {dense, sparse, pixels, pixels+join} x balance {True, 'weight', 'KR', 'VC', 'custom', "
        "'missing'} x divisive_weights {None, True, False}; `cooler dump -b` (+/- --join, -f) over region pairs. Oracle: "
        "raw(i,j) g(w_i) g(w_j), g = identity or reciprocal (reciprocal by default exactly for KR/VC/VC_SQRT), relative 1e-12; NaN "
        "where either bin is masked (dense: also where raw is 0); row weights from the row range, column weights from the column range; "
        "a missing column raises. Non-trivial: the window holds >=1 stored element and row range != column range or a NaN inside. "
        "Distinct by construction.")
EXTRA_LEGS = 'all selectors (every balance / divisive / output combination) are taken from the one Cooler object before any of them is queried.'
BOUNDS = {"quick": "n=4: all 16 NaN subsets x full matrix x both modes x 10 (balance, divisive) combinations x dense + (sparse | pixels alternating by subset parity) + joined pixels; 2 more matrices with 4 NaN subsets",
          "thorough": "n=4: all 16 NaN subsets x 3 matrices x both modes x the full 18 (balance, divisive) product x all 4 outputs; n=5: all 32 NaN subsets on the full matrix (8 subsets on 2 more matrices) x 10 combinations x all 4 outputs"}
ASSUMPTIONS = ["weights are dyadic so products are exact up to 1e-12 relative", "pixels+join (13 ms per query) only on 12 windows per file"]
EXPECT_CLASSES = {"*": ["win:above", "win:below", "win:diag-square", "win:overlap-upper", "bal:True", "bal:KR", "bal:missing", "out:dense", "out:sparse", "out:pixels", "dump"]}

NAMES = ["weight", "KR", "VC", "custom"]


def weights_for(n, mask):
    """per column: values and NaN subset (the subset is rotated by the column index so columns differ)"""
    out = {}
    for ci, nm in enumerate(NAMES):
        vals = np.array([0.5 + 0.25 * ((k * 3 + ci * 5) % 11) for k in range(n)], dtype=float)
        m = ((mask << ci) | (mask >> (n - ci))) & ((1 << n) - 1) if ci else mask
        for k in range(n):
            if m >> k & 1:
                vals[k] = np.nan
        out[nm] = vals
    return out


def make_file(n, symm, mat, mask):
    table = ((2,) * ((n + 1) // 2), (2,) * (n - (n + 1) // 2))
    bins = alpha.table_bins(table, "chr")
    cells = dict(alpha.structured(n, symm))[mat]
    pix = {c: {"count": alpha.value(n, c[0], c[1])} for c in cells}
    p = scratch.fresh()
    import cooler
    cooler.create_cooler(p, build.bins_df(bins), fx.frame(pix, ("count",)), symmetric_upper=symm, ordered=True)
    W = weights_for(n, mask)
    with h5py.File(p, "r+") as f:
        for nm, v in W.items():
            f["bins"].create_dataset(nm, data=v)
    M = np.zeros((n, n))
    for (i, j), v in pix.items():
        M[i, j] = v["count"]
        if symm:
            M[j, i] = v["count"]
    return p, bins, pix, M, W


def units(tier):
    th = tier == "thorough"
    for n in ((4, 5) if th else (4,)):
        for symm in (True, False):
            for mask in range(1 << n):
                yield {"leg": "api", "n": n, "symm": symm, "mat": "full", "mask": mask, "full": True}
                if (th and (n == 4 or mask % 4 == 1)) or mask in (0, 1, 0b0110, (1 << n) - 1):
                    for mat in ("checker", "sparse3"):
                        yield {"leg": "api", "n": n, "symm": symm, "mat": mat, "mask": mask, "full": th and n == 4}
    for symm in (True, False):
        for mask in (0, 0b0010, 0b1001):
            yield {"leg": "dump", "symm": symm, "mask": mask}


def g_of(name, div):
    if div is None:
        div = name in ("KR", "VC", "VC_SQRT")
    return (lambda x: 1.0 / x) if div else (lambda x: x)


def close(a, b):
    a, b = np.asarray(a, float), np.asarray(b, float)
    if a.shape != b.shape:
        return False
    if not np.array_equal(np.isnan(a), np.isnan(b)):
        return False
    fin = ~np.isnan(b)
    return bool(np.all(np.abs(a[fin] - b[fin]) <= 1e-12 * np.maximum(1.0, np.abs(b[fin]))))


def _api(R, unit, only, tier="quick"):
    import cooler
    n, symm, mat, mask = unit["n"], unit["symm"], unit["mat"], unit["mask"]
    p, bins, pix, M, W = make_file(n, symm, mat, mask)
    keys = sorted(pix)
    R.add("states")
    R.add("traces")
    try:
        clr = cooler.Cooler(p)
        wins = alpha.intervals(n)
        joinwins = {(0, n, 0, n), (0, 2, 2, n), (2, n, 0, 2), (1, 3, 0, n), (0, n, 1, 3), (0, 1, 0, 1), (1, 2, 2, 3), (2, 3, 1, 2),
                    (0, 3, 1, n), (1, n, 0, 3), (n - 1, n, 0, n), (0, n, n - 1, n)}
        combos = ([(True, None), (True, True), ("weight", False), ("KR", None), ("KR", False), ("VC", None), ("VC", True), ("custom", None),
                   ("custom", True), ("missing", None)] if unit["full"] else [(True, None), ("KR", None), ("missing", None)])
        if tier == "thorough" and unit["full"] and n == 4:
            combos = [(b, d) for b in (True, "weight", "KR", "VC", "custom", "missing") for d in (None, True, False)]
        outs = ("dense", "sparse", "pixels", "pixels+join") if tier == "thorough" else \
            (("dense", "sparse", "pixels+join") if mask % 2 == 0 else ("dense", "pixels", "pixels+join"))
        kk = 0
        # ALL selectors are taken from the one Cooler object first and queried afterwards: a selector keeps the options it was made with
        sels = {}
        for bal, div in combos:
            for out in outs:
                kw = dict(balance=bal, divisive_weights=div)
                if out == "sparse":
                    kw["sparse"] = True
                elif out.startswith("pixels"):
                    kw["as_pixels"] = True
                    kw["join"] = out == "pixels+join"
                try:
                    sels[(bal, div, out)] = clr.matrix(**kw)
                except Exception as e:
                    sels[(bal, div, out)] = e
        for bal, div in combos:
            name = "weight" if bal is True else bal
            if True:
                g = g_of(name, div)
                for out in outs:
                    sel = sels[(bal, div, out)]
                    if isinstance(sel, Exception):
                        R.mismatch("selector-raises:" + type(sel).__name__, {"bal": bal, "div": div, "out": out}, f"{sel!s:.200}")
                        continue
                    for (i0, i1) in wins:
                        for (j0, j1) in wins:
                            w = (i0, i1, j0, j1)
                            if out == "pixels+join" and w not in joinwins:
                                continue
                            kk += 1
                            inner = {"bal": bal, "div": div, "out": out, "win": list(w)}
                            if only is not None and only != inner:
                                continue
                            R.order = (R.order[0], kk)
                            raw = M[i0:i1, j0:j1]
                            R.c["evaluations"] += 1
                            R.c["transitions"] += 1
                            R.classes["win:" + alpha.window_class(*w)] += 1
                            R.classes["bal:" + str(bal)] += 1
                            R.classes["out:" + out.split("+")[0]] += 1
                            try:
                                res = sel[i0:i1, j0:j1]
                            except Exception as e:
                                if bal == "missing":
                                    continue
                                R.mismatch("query-raises:" + type(e).__name__, inner, f"{e!s:.200}")
                                continue
                            if bal == "missing":
                                R.mismatch("missing-weight-column-not-refused", inner, f"returned {type(res).__name__}")
                                continue
                            wv = W[name]
                            with np.errstate(all="ignore"):
                                gi, gj = g(wv[i0:i1]), g(wv[j0:j1])
                                exp = raw * np.outer(gi, gj)
                            R.c["nontrivial"] += bool(raw.any() and ((i0, i1) != (j0, j1) or np.isnan(exp).any()))
                            if out == "dense":
                                if not close(res, exp):
                                    R.mismatch("balanced-dense!=raw*wi*wj", inner, f"got={np.asarray(res).tolist()} want={exp.tolist()} weights={wv.tolist()}")
                            elif out == "sparse":
                                A = np.zeros(raw.shape)
                                A[res.row, res.col] = res.data
                                expS = np.where(raw != 0, exp, 0.0)
                                if res.shape != raw.shape or not close(A, expS) or len(set(zip(res.row.tolist(), res.col.tolist()))) != res.nnz:
                                    R.mismatch("balanced-sparse!=raw*wi*wj", inner, f"got={A.tolist()} want={expS.tolist()} weights={wv.tolist()}")
                            else:
                                want = [(k2, pix[k2]["count"]) for k2 in keys if i0 <= k2[0] < i1 and j0 <= k2[1] < j1]
                                with np.errstate(all="ignore"):
                                    wb = [c * g(wv[a]) * g(wv[b]) for (a, b), c in want]
                                gb = res["balanced"].tolist()
                                gc = res["count"].tolist()
                                if gc != [c for _, c in want] or not close(gb, wb):
                                    R.mismatch("balanced-pixels!=raw*wi*wj", inner, f"got={gb} want={wb} weights={wv.tolist()}")
                                if out == "pixels+join":
                                    gotc = list(zip(res["chrom1"].astype(str), res["start1"], res["chrom2"].astype(str), res["start2"]))
                                    wantc = [(bins[a][0], bins[a][1], bins[b][0], bins[b][1]) for (a, b), _ in want]
                                    if gotc != wantc:
                                        R.mismatch("balanced-joined-pixels:coordinates", inner, f"got={gotc} want={wantc}")
    finally:
        scratch.rm(p)


def _dump(R, unit, only):
    n, symm, mask = 4, unit["symm"], unit["mask"]
    p, bins, pix, M, W = make_file(n, symm, "full", mask)
    keys = sorted(pix)
    wv = W["weight"]
    R.add("states")
    R.add("traces")
    try:
        regs = [None, "chr2", "chr10", "chr2:0-2", "chr10:2-4", "chr2:2-4"]
        ext = {None: (0, n), "chr2": (0, 2), "chr10": (2, 4), "chr2:0-2": (0, 1), "chr10:2-4": (3, 4), "chr2:2-4": (1, 2)}
        kk = 0
        for r1 in regs:
            for r2 in regs:
                if r1 is None and r2 is not None:
                    continue
                for join in (False, True):
                    for fill in (False, True):
                        kk += 1
                        inner = {"r1": r1, "r2": r2, "join": join, "fill": fill}
                        if only is not None and only != inner:
                            continue
                        R.order = (R.order[0], kk)
                        R.ev(1, 1)
                        R.add("transitions")
                        R.cls("dump")
                        args = ["dump", "-b", "--float-format", ".17g", "--na-rep", "nan"] + (["--join"] if join else []) + (["-f"] if fill else [])
                        if r1:
                            args += ["-r", r1]
                        if r2:
                            args += ["-r2", r2]
                        code, so, exc = build.cli(args + [p])
                        if code != 0 or exc is not None:
                            R.mismatch("dump-fails", inner, f"code={code} exc={exc!r}")
                            continue
                        i0, i1 = ext[r1]
                        j0, j1 = ext[r2] if r2 else (i0, i1)
                        if fill and symm:
                            cells = [(i, j) for i in range(i0, i1) for j in range(j0, j1) if M[i, j] != 0]
                        else:
                            cells = [k2 for k2 in keys if i0 <= k2[0] < i1 and j0 <= k2[1] < j1]
                        want = {}
                        for (i, j) in cells:
                            with np.errstate(all="ignore"):
                                want[(i, j)] = (M[i, j], M[i, j] * wv[i] * wv[j])
                        got = {}
                        bad = False
                        for ln in so.splitlines():
                            f = ln.split("\t")
                            if join:
                                b1 = [q for q, b in enumerate(bins) if (b[0], str(b[1]), str(b[2])) == (f[0], f[1], f[2])]
                                b2 = [q for q, b in enumerate(bins) if (b[0], str(b[1]), str(b[2])) == (f[3], f[4], f[5])]
                                if len(b1) != 1 or len(b2) != 1:
                                    bad = True
                                    break
                                key, rest = (b1[0], b2[0]), f[6:]
                            else:
                                key, rest = (int(f[0]), int(f[1])), f[2:]
                            if key in got:
                                bad = True
                            got[key] = (float(rest[0]), float(rest[1]))
                        if bad or set(got) != set(want) or any(not close([got[k2][0], got[k2][1]], [want[k2][0], want[k2][1]]) for k2 in want):
                            R.mismatch("dump-b!=raw*wi*wj", inner, f"got={sorted(got.items())} want={sorted(want.items())} weights={wv.tolist()}")
    finally:
        scratch.rm(p)


def run(unit, R, tier, only=None):
    if unit["leg"] == "api":
        _api(R, unit, only, tier)
        if unit["mask"] == 0b0110 and unit["mat"] == "full":
            R.sample({"leg": "api", "n": unit["n"], "symm": unit["symm"], "nan_positions_of_weight": [k for k in range(unit["n"]) if unit["mask"] >> k & 1],
                      "windows": "all", "balance": [True, "weight", "KR", "VC", "custom", "missing"], "divisive": [None, True, False]})
    else:
        _dump(R, unit, only)
