"""C03 — a 2-D range query equals the same slice of the full matrix (E1)."""
from __future__ import annotations

import numpy as np

from vmc import alpha, build
from vmc.core import scratch, seamprobe

ID = "C03"
LEVEL = "model_checking"
RULE = ("engine leg: every subset of the upper triangle / full grid as stored matrix (pairwise distinct values) x every "
        "window (i0<=i1, j0<=j1) in [0,n]^4 x chunk sizes x output forms, compared with the dense reference slice; "
        "api leg: real files, every window x output form x chunk size x store spelling; slice leg: every slice(a,b) / "
        "scalar / subscript form on n=4 vs numpy indexing. A case is non-trivial when the window meets >=1 stored (or "
        "mirrored) element and is not the whole matrix; distinct by construction (enumeration never repeats a case).")
EXTRA_LEGS = "stored values of both signs (engine leg and field= column); balance axis: dense balance=True and sparse balance='KR' (divisive) windows == the same slice of the full balanced matrix; internal-engine legs are skipped (cap) if the internal interface was refactored." + ' all selectors of a case are taken from their Cooler objects before any of them is queried.' + " the second value column is called 'alt' (API leg) / 'aux' (engine leg): names that sort before the id columns in the HDF5 group listing."
BOUNDS = {
    "quick": "engine: all upper patterns n<=4, all square patterns n<=3, structured n=5..7; chunk sizes {1,2,3,nnz,nnz+1,1e7}; "
             "api: all upper patterns n<=3 + structured n=4..6, both modes; slices n=4",
    "thorough": "engine: all upper patterns n<=5, all square patterns n<=4, structured n=5..8; api as quick plus all square "
                "patterns n<=2... and structured n=4..7",
}
ASSUMPTIONS = [
    "values are small integers; dtype of the result is not compared, only values",
    "slice bounds outside [-n, n] and resolved lo>hi are outside the statement and not enumerated",
    "pydata/sparse and dask outputs are not installed / not part of the statement",
]
EXPECT_CLASSES = {"*": ["win:" + c for c in ("empty", "diag-square", "above", "below", "anchored", "end-anchored",
                                             "i-in-j", "j-in-i", "overlap-upper", "overlap-lower")]}

PATS_PER_UNIT = 32


def units(tier):
    th = tier == "thorough"
    # engine level, exhaustive patterns
    for n, symm in ([(1, True), (1, False), (2, True), (2, False), (3, True), (3, False), (4, True)]
                    + ([(4, False), (5, True)] if th else [])):
        N = alpha.npatterns(n, symm)
        for lo in range(0, N, PATS_PER_UNIT):
            yield {"leg": "engine", "n": n, "symm": symm, "lo": lo, "hi": min(N, lo + PATS_PER_UNIT)}
    for n in (5, 6, 7) + ((8,) if th else ()):
        for symm in (True, False):
            fam = alpha.structured(n, symm)
            for k in range(len(fam)):
                yield {"leg": "engine-s", "n": n, "symm": symm, "k": k}
    # api level: all upper patterns n<=3, all square patterns n<=2 (thorough: + every 5th square 3x3 pattern)
    for n in (1, 2, 3):
        for symm in (True, False):
            N = alpha.npatterns(n, symm)
            if not symm and n == 3:
                if th:
                    for p in range(0, N, 5):
                        yield {"leg": "api", "n": n, "symm": symm, "pat": p}
                continue
            for p in range(N):
                yield {"leg": "api", "n": n, "symm": symm, "pat": p}
    for n in (3, 4) + ((5, 6) if th else ()):
        for symm in (True, False):
            if n == 3 and symm:
                continue
            for k in range(len(alpha.structured(n, symm))):
                yield {"leg": "api-s", "n": n, "symm": symm, "k": k}
    # scale leg: rows with thousands of stored pixels (size-dependent code paths), structured windows around them
    for symm in (True, False):
        yield {"leg": "longrow", "symm": symm}
    for symm in (True, False):
        for part in range(8):
            yield {"leg": "slices", "symm": symm, "form": "pair", "part": part}
        for form in ("single", "single-tuple", "scalar"):
            yield {"leg": "slices", "symm": symm, "form": form, "part": 0}


def _is_nontrivial(M, w, n):
    i0, i1, j0, j1 = w
    if (i0, i1, j0, j1) == (0, n, 0, n):
        return False
    return bool(M[i0:i1, j0:j1].any())


def _engine_probe():
    """smallest valid use of the internal query engine, made the way the engine legs make their calls"""
    from cooler.core import CSRReader, DirectRangeQuery2D, FillLowerRangeQuery2D
    a = np.array([0], dtype=np.int64)
    reader = CSRReader({"bin1_id": a, "bin2_id": a, "count": a + 1}, np.array([0, 1]))
    FillLowerRangeQuery2D(reader, "count", (0, 1, 0, 1), 10).get()
    FillLowerRangeQuery2D(reader, "count", (0, 1, 0, 1), 10).to_sparse_matrix()
    FillLowerRangeQuery2D(reader, "count", (0, 1, 0, 1), 10).to_array()
    DirectRangeQuery2D(reader, "count", (0, 1, 0, 1), 10, return_index=True).get()["__index"]
    DirectRangeQuery2D(reader, "count", (0, 1, 0, 1), 10, return_index=True).to_frame()


def _engine_case(R, n, symm, cells, tag, only, chunks=None, frames=True):
    if not seamprobe.internal_ok(R, "C03:engine", _engine_probe):
        return
    from cooler.core import CSRReader, DirectRangeQuery2D, FillLowerRangeQuery2D
    pix = {k: (v if (k[0] + k[1]) % 2 == 0 else -v) for k, v in build.pattern_pix(n, cells).items()}      # values of both signs
    keys = sorted(pix)
    b1 = np.array([k[0] for k in keys], dtype=np.int64)
    b2 = np.array([k[1] for k in keys], dtype=np.int64)
    v = np.array([pix[k] for k in keys], dtype=np.int64)
    nnz = len(keys)
    M = build.dense(n, pix, symm)
    off = np.searchsorted(b1, np.arange(n + 1))
    # a second value column whose name sorts before the id columns (aux = -count)
    reader = CSRReader({"aux": -v, "bin1_id": b1, "bin2_id": b2, "count": v}, off)
    Eng = FillLowerRangeQuery2D if symm else DirectRangeQuery2D
    chunks = sorted(set(chunks or (1, 2, 3, max(nnz, 1), nnz + 1, 10 ** 7)))
    wins = alpha.intervals(n)
    R.add("states")
    R.add("traces")
    inner_k = 0
    # (output form, chunk size) pairs: dict output for every chunk size, the other forms at one or two sizes
    combos = [("dict", cs) for cs in chunks] + [("sparse", 2), ("dense", 3), ("dense:aux", 2), ("pixdict+index", 1), ("pixdict+index", 10 ** 7)]
    if frames:
        combos += [("frame", 10 ** 7), ("frame+index", 1)]
    rows_all = np.arange(nnz)
    for (i0, i1) in wins:
        for (j0, j1) in wins:
            w = (i0, i1, j0, j1)
            exp = M[i0:i1, j0:j1]
            wc = alpha.window_class(*w)
            nt = _is_nontrivial(M, w, n)
            inwin = (b1 >= i0) & (b1 < i1) & (b2 >= j0) & (b2 < j1)
            want_rows = rows_all[inwin]
            for out, cs in combos:
                inner_k += 1
                if only is not None:
                    inner = {"tag": tag, "win": list(w), "cs": cs, "out": out}
                    if only != inner:
                        continue
                R.order = (R.order[0], inner_k)
                R.c["evaluations"] += 1
                R.c["nontrivial"] += nt
                R.c["transitions"] += 1
                R.classes["win:" + wc] += 1
                try:
                    bad = None
                    if out == "dict":
                        d = Eng(reader, "count", w, cs).get()
                        A = np.zeros(exp.shape, dtype=np.int64)
                        C = np.zeros(exp.shape, dtype=np.int64)
                        r, c = d["bin1_id"] - i0, d["bin2_id"] - j0
                        if len(r) and (r.min() < 0 or c.min() < 0 or r.max() >= exp.shape[0] or c.max() >= exp.shape[1]):
                            bad = ("element-outside-window", f"rows={d['bin1_id'].tolist()} cols={d['bin2_id'].tolist()}")
                        else:
                            np.add.at(A, (r, c), d["count"])
                            np.add.at(C, (r, c), 1)
                            if C.size and C.max() > 1:
                                bad = ("element-emitted-twice", f"rows={d['bin1_id'].tolist()} cols={d['bin2_id'].tolist()}")
                            elif not np.array_equal(A, exp):
                                bad = ("dict!=slice-of-full", f"got={A.tolist()} want={exp.tolist()}")
                        if cs == 10 ** 7:
                            R.outcome((n, symm, tag, w, A.tolist()))
                    elif out == "sparse":
                        sp = Eng(reader, "count", w, cs).to_sparse_matrix()
                        if sp.shape != exp.shape:
                            bad = ("shape", f"{sp.shape} vs {exp.shape}")
                        elif len(set(zip(sp.row.tolist(), sp.col.tolist()))) != sp.nnz:
                            bad = ("element-emitted-twice", f"rows={sp.row.tolist()} cols={sp.col.tolist()}")
                        elif not np.array_equal(sp.toarray(), exp):
                            bad = ("sparse!=slice-of-full", f"got={sp.toarray().tolist()} want={exp.tolist()}")
                    elif out == "dense":
                        A = Eng(reader, "count", w, cs).to_array()
                        if A.shape != exp.shape or not np.array_equal(A, exp):
                            bad = ("dense!=slice-of-full", f"got={A.tolist()} want={exp.tolist()}")
                    elif out == "dense:aux":
                        A = Eng(reader, "aux", w, cs).to_array()
                        if A.shape != exp.shape or not np.array_equal(A, -exp):
                            bad = ("dense(second-value-column)!=slice-of-full", f"got={A.tolist()} want={(-exp).tolist()}")
                    elif out == "pixdict+index":
                        d = DirectRangeQuery2D(reader, "count", w, cs, return_index=True).get()
                        if not (np.array_equal(d["bin1_id"], b1[inwin]) and np.array_equal(d["bin2_id"], b2[inwin])
                                and np.array_equal(d["count"], v[inwin])):
                            bad = ("pixels!=stored-records-in-window", f"got={d['bin1_id'].tolist()},{d['bin2_id'].tolist()},{d['count'].tolist()}")
                        elif not np.array_equal(d["__index"], want_rows):
                            bad = ("pixel-index!=true-row-numbers", f"got={d['__index'].tolist()} want={want_rows.tolist()}")
                    else:
                        ri = out == "frame+index"
                        df = DirectRangeQuery2D(reader, "count", w, cs, return_index=ri).to_frame()
                        if not (np.array_equal(df["bin1_id"].values, b1[inwin]) and np.array_equal(df["bin2_id"].values, b2[inwin])
                                and np.array_equal(df["count"].values, v[inwin])):
                            bad = ("pixels!=stored-records-in-window", f"got={df.values.tolist()}")
                        elif ri and not np.array_equal(df.index.values, want_rows):
                            bad = ("pixel-index!=true-row-numbers", f"got={df.index.tolist()} want={want_rows.tolist()}")
                    if bad:
                        R.mismatch(bad[0], {"tag": tag, "win": list(w), "cs": cs, "out": out}, bad[1] + f" cells={cells}")
                except Exception as e:
                    R.mismatch("raises:" + type(e).__name__, {"tag": tag, "win": list(w), "cs": cs, "out": out}, f"{e!s:.300} cells={cells}")


_files = {}


API_COMBOS = [  # (store, output form, chunk size)
    ("path", "dense", 1), ("path", "dense", 10 ** 7), ("path", "sparse", 1), ("path", "sparse", 10 ** 7),
    ("path", "pixels", 10 ** 7), ("path", "pixels+index", 1), ("path", "func", 10 ** 7),
    ("uri", "dense", 10 ** 7), ("uri", "pixels+index", 10 ** 7), ("handle", "sparse", 10 ** 7), ("handle", "pixels", 1),
    ("uri", "dense:score", 1), ("uri", "sparse:score", 10 ** 7),       # field=: the second value column of the collection
    ("uri", "dense:weight", 10 ** 7), ("uri", "sparse:KR", 10 ** 7),   # balance=: a window of the balanced matrix is the same slice of the full balanced matrix
    ("legacy", "dense", 1), ("legacy", "pixels", 10 ** 7),             # a format-version-2 copy (no storage-mode attribute) of a symmetric cooler
]
JOIN_COMBOS = [("path", "pixels+join", 10 ** 7), ("handle", "pixels+join", 1)]


def _api_case(R, n, symm, cells, tag, only, join=False, reduced=False):
    import cooler
    import h5py
    bins = _bins_for(n)
    pix = build.pattern_pix(n, cells)
    keys = sorted(pix)
    nnz = len(keys)
    M = build.dense(n, pix, symm)
    p1 = scratch.fresh()
    p2 = scratch.fresh()
    p3 = None
    try:
        build.create(p1, bins, pix, symm)
        # /a/b carries a second value column (40 - 3 * count: values of both signs) that field= selects; it is called 'alt' so that its
        # name sorts BEFORE bin1_id / bin2_id (HDF5 lists group members alphabetically; 'count' sorts after them)
        build.create(p2 + "::/a/b", bins, {k: {"count": v, "alt": 40 - 3 * v} for k, v in pix.items()}, symm, cols=("count", "alt"))
        MS = build.dense(n, {k: 40 - 3 * v for k, v in pix.items()}, symm)
        # two weight columns on /a/b: 'weight' (multiplicative) and 'KR' (divisive by default), pairwise distinct values, one masked bin
        wv = np.array([0.5 + 0.25 * q for q in range(n)])
        if n >= 3:
            wv[n // 2] = np.nan
        with h5py.File(p2, "r+") as f2:
            f2["/a/b/bins"].create_dataset("weight", data=wv)
            f2["/a/b/bins"].create_dataset("KR", data=1.0 / wv)
        with np.errstate(invalid="ignore"):
            MB = M * np.outer(wv, wv)         # full balanced matrix (the same for both columns); NaN rows / columns for the masked bin
        # a SECOND, different collection in the same file (as in a multi-resolution file): the complement pattern with other values;
        # it is queried alternately with /a/b below, so that anything remembered per file (not per collection) shows
        cells2 = [c for c in alpha.cells(n, symm) if c not in set(map(tuple, cells))]
        pix2 = {c: 100 + alpha.value(n, c[0], c[1]) for c in cells2}
        build.create(p2 + "::/other", bins, pix2, symm, mode="a")
        M2 = build.dense(n, pix2, symm)
        R.add("states")
        R.add("traces")
        wins = alpha.intervals(n)
        h = h5py.File(p2, "r")
        try:
            srcs = {"path": cooler.Cooler(p1), "uri": cooler.Cooler(p2 + "::a/b"), "handle": cooler.Cooler(h["/a/b"])}
            if symm:
                import shutil
                p3 = scratch.fresh()
                shutil.copy(p1, p3)
                with h5py.File(p3, "r+") as f3:
                    del f3.attrs["storage-mode"]
                    f3.attrs["format-version"] = 2
                srcs["legacy"] = cooler.Cooler(p3)
            other = cooler.Cooler(p2 + "::/other").matrix(balance=False)
            inner_k = 0
            combos = (API_COMBOS[1::2] if reduced else API_COMBOS) + (JOIN_COMBOS if join else [])
            # ALL selectors are taken from their Cooler objects first and queried afterwards (a selector keeps its own options)
            def _mk(clr, out, cs):
                if out == "dense":
                    return clr.matrix(balance=False, chunksize=cs)
                if out == "sparse":
                    return clr.matrix(balance=False, sparse=True, chunksize=cs)
                if out == "dense:score":
                    return clr.matrix(field="alt", balance=False, chunksize=cs)
                if out == "sparse:score":
                    return clr.matrix(field="alt", balance=False, sparse=True, chunksize=cs)
                if out == "dense:weight":
                    return clr.matrix(balance=True, chunksize=cs)
                if out == "sparse:KR":
                    return clr.matrix(balance="KR", sparse=True, chunksize=cs)
                if out == "pixels":
                    return clr.matrix(balance=False, as_pixels=True, chunksize=cs)
                if out == "pixels+index":
                    return clr.matrix(balance=False, as_pixels=True, ignore_index=False, chunksize=cs)
                if out == "pixels+join":
                    return clr.matrix(balance=False, as_pixels=True, join=True, chunksize=cs)
                return None
            sels = {(store, out, cs): _mk(srcs[store], out, cs) for store, out, cs in combos if store in srcs}
            for store, out, cs in combos:
                if store not in srcs:
                    continue
                clr = srcs[store]
                sel = sels[(store, out, cs)]
                for (i0, i1) in wins:
                    for (j0, j1) in wins:
                        w = (i0, i1, j0, j1)
                        inner_k += 1
                        inner = {"tag": tag, "store": store, "out": out, "cs": cs, "win": list(w)}
                        if only is not None and only != inner:
                            continue
                        R.order = (R.order[0], inner_k)
                        nt = _is_nontrivial(M, w, n)
                        R.ev(1, 1 if nt else 0)
                        R.add("transitions")
                        R.cls("win:" + alpha.window_class(*w))
                        R.cls("api:" + store + ":" + out)
                        exp = M[i0:i1, j0:j1]
                        want = [(r, keys[r][0], keys[r][1], pix[keys[r]]) for r in range(nnz)
                                if i0 <= keys[r][0] < i1 and j0 <= keys[r][1] < j1]
                        try:
                            if out == "func":
                                with clr.open("r") as grp:
                                    A = cooler.api.matrix(grp, i0, i1, j0, j1, balance=False, chunksize=cs,
                                                          fill_lower=symm)
                                if A.shape != exp.shape or not np.array_equal(A, exp):
                                    R.mismatch("api.matrix!=slice-of-full", inner, f"got={A.tolist()} want={exp.tolist()}")
                                continue
                            if store == "uri" and out == "dense":
                                o2 = other[i0:i1, j0:j1]        # interleaved query on the other collection of the same file
                                if o2.shape != exp.shape or not np.array_equal(o2, M2[i0:i1, j0:j1]):
                                    R.mismatch("dense!=slice-of-full(second-collection-of-the-file)", inner, f"got={o2.tolist()} want={M2[i0:i1, j0:j1].tolist()}")
                            res = sel[i0:i1, j0:j1]
                            if out in ("dense:weight", "sparse:KR"):
                                eb = MB[i0:i1, j0:j1]
                                if out == "sparse:KR":
                                    got = np.zeros(eb.shape)
                                    got[res.row, res.col] = res.data
                                    eb = np.where(M[i0:i1, j0:j1] == 0, 0.0, eb)      # sparse output holds stored cells only
                                else:
                                    got = np.asarray(res, dtype=float)
                                    eb = np.where((M[i0:i1, j0:j1] == 0) & ~np.isnan(eb), 0.0, eb)
                                if got.shape != eb.shape or not np.allclose(got, eb, rtol=1e-12, atol=0, equal_nan=True):
                                    R.mismatch("balanced-window!=slice-of-full-balanced-matrix", inner, f"got={got.tolist()} want={eb.tolist()} cells={cells}")
                            elif out in ("dense:score", "sparse:score"):
                                es = MS[i0:i1, j0:j1]
                                got = res.toarray() if out == "sparse:score" else res
                                if got.shape != es.shape or not np.array_equal(got, es):
                                    R.mismatch("field-matrix!=slice-of-full", inner, f"got={got.tolist()} want={es.tolist()} cells={cells}")
                            elif out == "dense":
                                if res.shape != exp.shape or not np.array_equal(res, exp):
                                    R.mismatch("dense!=slice-of-full", inner, f"got={res.tolist()} want={exp.tolist()} cells={cells}")
                            elif out == "sparse":
                                if res.shape != exp.shape or not np.array_equal(res.toarray(), exp):
                                    R.mismatch("sparse!=slice-of-full", inner, f"got={res.toarray().tolist()} want={exp.tolist()} cells={cells}")
                                if len(set(zip(res.row.tolist(), res.col.tolist()))) != res.nnz:
                                    R.mismatch("element-emitted-twice", inner, "")
                            elif out in ("pixels", "pixels+index"):
                                got = list(zip(res["bin1_id"].tolist(), res["bin2_id"].tolist(), res["count"].tolist()))
                                if got != [x[1:] for x in want]:
                                    R.mismatch("pixels!=stored-records-in-window", inner, f"got={got} want={want}")
                                if out == "pixels+index" and res.index.tolist() != [x[0] for x in want]:
                                    R.mismatch("pixel-index!=true-row-numbers", inner, f"got={res.index.tolist()} want={[x[0] for x in want]}")
                            else:
                                got = list(zip(res["chrom1"].astype(str).tolist(), res["start1"].tolist(), res["end1"].tolist(),
                                               res["chrom2"].astype(str).tolist(), res["start2"].tolist(), res["end2"].tolist(),
                                               res["count"].tolist()))
                                wj = [tuple(bins[x[1]]) + tuple(bins[x[2]]) + (x[3],) for x in want]
                                if got != wj:
                                    R.mismatch("joined-pixels!=stored-records-in-window", inner, f"got={got} want={wj}")
                        except Exception as e:
                            R.mismatch("raises:" + type(e).__name__, inner, f"{e!s:.300} cells={cells}")
        finally:
            h.close()
    finally:
        scratch.rm(p1, p2)
        if p3:
            scratch.rm(p3)


def _longrow(R, symm, only):
    """engine level, n = 5000 bins: rows 0, 2500 and 4999 (last: symmetric mode has only its diagonal) are completely filled,
    plus the diagonal; windows = single columns / short column ranges at and around 0, 4095, 4096, 4097, 4999, taken over
    row ranges that contain the long rows; reference = scipy CSR of the (completed) matrix"""
    import scipy.sparse as sp
    if not seamprobe.internal_ok(R, "C03:engine", _engine_probe):
        return
    from cooler.core import CSRReader, DirectRangeQuery2D, FillLowerRangeQuery2D
    n = 5000
    rows, cols = [], []
    for r in (0, 2500, 4999):
        js = np.arange(r if symm else 0, n)
        rows.append(np.full(len(js), r)); cols.append(js)
    d = np.arange(n)
    rows.append(d); cols.append(d)
    b1 = np.concatenate(rows); b2 = np.concatenate(cols)
    key = np.unique(b1 * n + b2)
    b1, b2 = key // n, key % n
    v = (1 + (b1 * 7 + b2 * 13) % 1000).astype(np.int64)
    S = sp.coo_matrix((v, (b1, b2)), shape=(n, n)).tocsr()
    if symm:
        S = S + sp.triu(S, 1).T.tocsr()
    off = np.searchsorted(b1, np.arange(n + 1))
    reader = CSRReader({"bin1_id": b1, "bin2_id": b2, "count": v}, off)
    Eng = FillLowerRangeQuery2D if symm else DirectRangeQuery2D
    R.add("states")
    R.add("traces")
    marks = [0, 1, 2499, 2500, 2501, 4094, 4095, 4096, 4097, 4998, 4999]
    colr = [(m, m + 1) for m in marks] + [(m, min(n, m + 3)) for m in marks] + [(max(0, m - 2), m + 1) for m in marks] + [(0, 50), (4090, 4100), (4950, 5000)]
    rowr = [(0, 1), (0, 3), (2499, 2502), (2500, 2501), (4990, 5000), (4999, 5000), (0, 2501), (4095, 4098)]
    kk = 0
    for (i0, i1) in rowr:
        for (j0, j1) in colr:
            for (a0, a1, c0, c1) in ((i0, i1, j0, j1), (j0, j1, i0, i1)):
                for cs in (1000, 10 ** 7):
                    kk += 1
                    inner = {"win": [a0, a1, c0, c1], "cs": cs}
                    if only is not None and only != inner:
                        continue
                    R.order = (R.order[0], kk)
                    R.c["evaluations"] += 1
                    R.c["nontrivial"] += 1
                    R.c["transitions"] += 1
                    R.classes["longrow"] += 1
                    exp = S[a0:a1, c0:c1].toarray()
                    try:
                        got = Eng(reader, "count", (a0, a1, c0, c1), cs).to_sparse_matrix()
                        if got.shape != exp.shape or len(set(zip(got.row.tolist(), got.col.tolist()))) != got.nnz or not np.array_equal(got.toarray(), exp):
                            R.mismatch("sparse!=slice-of-full(long-rows)", inner, f"nnz got={got.nnz} want={int((exp != 0).sum())}")
                    except Exception as e:
                        R.mismatch("raises:" + type(e).__name__, inner, f"{e!s:.200}")


def _bins_for(n):
    # two chromosomes when possible: the first gets ceil(n/2) bins of width 2
    k = (n + 1) // 2 if n > 1 else 1
    table = ((2,) * k,) + (((2,) * (n - k),) if n - k else ())
    return alpha.table_bins(table, "chr")


def _slices_case(R, symm, form, only, part=0):
    import cooler
    n = 4
    cells = alpha.cells(n, symm)
    pix = build.pattern_pix(n, cells)
    M = build.dense(n, pix, symm)
    p = scratch.fresh()
    try:
        build.create(p, _bins_for(n), pix, symm)
        clr = cooler.Cooler(p)
        R.add("states")
        R.add("traces")
        sel = clr.matrix(balance=False)
        sps = clr.matrix(balance=False, sparse=True)
        vals = [None] + list(range(-n, n + 1))
        sl = []
        for a in vals:
            for b in vals:
                lo, hi, _ = slice(a, b).indices(n)
                if lo <= hi:
                    sl.append((a, b))
        scal = list(range(-n, n))
        k = 0

        def one(key, exp, inner):
            nonlocal k
            k += 1
            if only is not None and only != inner:
                return
            R.order = (R.order[0], k)
            R.ev(1, 1 if exp.size and exp.shape != (n, n) else 0)
            R.add("transitions")
            R.cls("slice:" + form)
            try:
                A = sel[key]
                B = sps[key].toarray()
                if A.shape != exp.shape or not np.array_equal(A, exp):
                    R.mismatch("slice-resolution(dense)", inner, f"got={A.tolist()} want={exp.tolist()}")
                if B.shape != exp.shape or not np.array_equal(B, exp):
                    R.mismatch("slice-resolution(sparse)", inner, f"got={B.tolist()} want={exp.tolist()}")
            except Exception as e:
                R.mismatch("raises:" + type(e).__name__, inner, f"{e!s:.300}")

        def as2d(x):
            return x if isinstance(x, slice) else slice(x % n, x % n + 1)

        if form == "pair":
            for q, (a, b) in enumerate(sl):
                if q % 8 != part:
                    continue
                for (c, d) in sl:
                    one((slice(a, b), slice(c, d)), M[slice(a, b), slice(c, d)], {"form": form, "s1": [a, b], "s2": [c, d]})
        elif form == "single":
            for (a, b) in sl:
                one(slice(a, b), M[slice(a, b), :], {"form": form, "s1": [a, b]})
        elif form == "single-tuple":
            for (a, b) in sl:
                one((slice(a, b),), M[slice(a, b), :], {"form": form, "s1": [a, b]})
        else:
            for s in scal:
                one(s, M[as2d(s), :], {"form": form, "s": s})
                for t in scal:
                    one((s, t), M[as2d(s), as2d(t)], {"form": form, "s": s, "t": t})
                for (a, b) in sl:
                    one((s, slice(a, b)), M[as2d(s), slice(a, b)], {"form": form, "s": s, "s2": [a, b]})
                    one((slice(a, b), s), M[slice(a, b), as2d(s)], {"form": form, "s1": [a, b], "t": s})
    finally:
        scratch.rm(p)


def run(unit, R, tier, only=None):
    leg = unit["leg"]
    if leg == "engine":
        n, symm = unit["n"], unit["symm"]
        big = (n, symm) in ((5, True), (4, False))
        for pat in range(unit["lo"], unit["hi"]):
            if only is not None and only.get("tag") != pat:
                continue
            cells = alpha.pattern_cells(n, symm, pat)
            if pat == unit["lo"]:
                R.sample({"leg": leg, "n": n, "symm": symm, "stored_cells": cells, "windows": "all (i0<=i1,j0<=j1) in [0,n]^4",
                          "chunksizes": "1,3,1e7" if big else "1,2,3,nnz,nnz+1,1e7"})
            _engine_case(R, n, symm, cells, pat, only, chunks=(1, 3, 10 ** 7) if big else None, frames=n <= 3)
    elif leg == "engine-s":
        n, symm = unit["n"], unit["symm"]
        name, cells = alpha.structured(n, symm)[unit["k"]]
        _engine_case(R, n, symm, cells, name, only, frames=n <= 6)
    elif leg == "api":
        n, symm = unit["n"], unit["symm"]
        cells = alpha.pattern_cells(n, symm, unit["pat"])
        _api_case(R, n, symm, cells, unit["pat"], only, join=(n <= 2 or unit["pat"] in (0b111111, 0b101101)))
    elif leg == "api-s":
        n, symm = unit["n"], unit["symm"]
        name, cells = alpha.structured(n, symm)[unit["k"]]
        if unit["k"] == 1:
            R.sample({"leg": leg, "n": n, "symm": symm, "stored_cells": name, "combos": [list(c) for c in API_COMBOS]})
        _api_case(R, n, symm, cells, name, only, join=(name == "full" and n <= 4), reduced=(n >= 5))
    elif leg == "longrow":
        _longrow(R, unit["symm"], only)
    elif leg == "slices":
        _slices_case(R, unit["symm"], unit["form"], only, unit.get("part", 0))
    else:
        raise ValueError(leg)
