"""C10 — balancing weights flatten the marginals of the filtered matrix (E1)."""
from __future__ import annotations

import itertools

import numpy as np

from vmc import alpha, fixtures as fx, refbalance as rb
from vmc.core import scratch

ID = "C10"
LEVEL = "model_checking"
RULE = ("symmetric coolers = structured matrix family on 6 (thorough: + 8) bins x 1-, 2- and 3-chromosome tables (thorough: + ALL 1024 "
        "upper patterns on 4 bins in one and in two chromosomes), positive values; options = FULL product mode {genome-wide, cis, trans} "
        "x ignore_diags {0,1,2,3} x min_nnz {0,1,2,3} x mad_max {0,1,3}, plus one-at-a-time sweeps of min_count, blacklist, tol, "
        "max_iters, x0, rescale, chunksize around a 12-point core. Oracle, for every scope (genome / chromosome) whose reported "
        "`converged` is true: row sums of diag(w) F diag(w) over bins with a non-zero row lie in [t/(1+e), t/(1-e)], e = sqrt(N tol)/scale, "
        "t = 1 (rescaled) or scale; NaN set == union of the documented filters recomputed on the dense matrix; every other weight "
        "finite and > 0. Non-trivial: >=1 converged scope with >=2 retained bins. Distinct by construction.")
EXTRA_LEGS = "coolers in which half of the stored pixels carry an explicit zero count (kind s6z), through the full option product; the bins left open by the mask clause are narrowed to zero-marginal bins that no documented filter excludes."
BOUNDS = {"quick": "16 structured matrices x 3 tables on 6 bins x 144 option points + sweeps on 6 coolers; max_iters 50; command line: 8 blacklists x 3 tables, and {genome-wide, --cis-only, --trans-only} x --min-count {0, median} x --tol {1e-5, 1e-1} x --name {weight, w2} with --check / --stdout / --force around each, on 6 coolers",
          "thorough": "all structured matrices on 6 and 8 bins x 3 tables x 144 points; all 1024 four-bin patterns x 2 tables x 72 points; sweeps on 18 coolers; command line legs as in the quick tier"}
ASSUMPTIONS = ["only runs/scopes that report convergence are judged (their number is in classes: scope:converged)",
               "bins whose filtered marginal is exactly zero are not judged by the mask clause when no documented filter excludes them (with min_nnz >= 1, min_count > 0 or mad_max > 0 such a bin is excluded: NaN is demanded); bins within 1e-9 relative of the MAD cutoff are not judged",
               "max_iters is capped at 50 inside the product (200 appears only in the single sweep dimension)"]
EXPECT_CLASSES = {"*": ["scope:converged", "scope:not-converged", "mode:gw", "mode:cis", "mode:trans", "mask:some-nan", "mask:all-finite", "cli-blacklist", "cli-opts"]}

TABLES6 = [((1,) * 6,), ((1,) * 4, (1,) * 2), ((1,) * 2, (1,) * 3, (1,))]
TABLES8 = [((1,) * 8,), ((1,) * 5, (1,) * 3), ((1,) * 3, (1,) * 3, (1,) * 2)]
TABLES4 = [((1,) * 4,), ((1,) * 2, (1,) * 2)]
MODES = ["gw", "cis", "trans"]
QUICK_FAM = ["full", "diag", "off1", "off2", "row0", "row2", "col5", "lead_empty", "trail_empty", "mid_empty", "checker",
             "checker1", "corners", "sparse3", "col0", "row5"]
CORE = [("gw", 2, 0, 0), ("gw", 1, 1, 0), ("gw", 0, 0, 0), ("gw", 2, 2, 3), ("cis", 2, 0, 0), ("cis", 1, 1, 1), ("cis", 0, 0, 0), ("cis", 1, 0, 3),
        ("trans", 2, 0, 0), ("trans", 1, 1, 0), ("trans", 0, 0, 1), ("trans", 3, 0, 0)]


def cooler_spec(kind, ti, mat):
    """-> (table, n, cells)"""
    if kind in ("s6", "s6f", "s6z"):
        t = TABLES6[ti]
    elif kind == "s8":
        t = TABLES8[ti]
    else:
        t = TABLES4[ti]
    n = alpha.table_nbins(t)
    if kind == "p4":
        cells = alpha.pattern_cells(4, True, mat)
    else:
        cells = dict(alpha.structured(n, True))[mat]
    return t, n, cells


def zcount(n, c):
    return alpha.value(n, c[0], c[1]) if (c[0] + c[1]) % 2 else 0


def get_cooler(kind, ti, mat):
    import cooler
    t, n, cells = cooler_spec(kind, ti, mat)
    bins = alpha.table_bins(t, "chr")
    if kind == "s6f":
        # float64 counts, all strictly between 0 and 1 (dyadic): a 'count' need not be an integer
        pix = {c: {"count": alpha.value(n, c[0], c[1]) / 64.0} for c in cells}
        uri = fx.make(("c10", kind, ti, mat), bins, pix, cols=("count",), count_dtype=np.float64, h5opts={"compression": None, "shuffle": False})
    elif kind == "s6z":
        # half of the stored pixels carry an explicit ZERO count (cells with i + j even): a stored zero is no contact - it counts
        # neither as a non-zero for min_nnz nor anywhere else
        pix = {c: {"count": zcount(n, c)} for c in cells}
        uri = fx.make(("c10", kind, ti, mat), bins, pix, cols=("count",), h5opts={"compression": None, "shuffle": False})
    else:
        pix = {c: {"count": alpha.value(n, c[0], c[1])} for c in cells}
        uri = fx.make(("c10", kind, ti, mat), bins, pix, cols=("count",), h5opts={"compression": None, "shuffle": False})
    A = np.zeros((n, n))
    for (i, j), v in pix.items():
        A[i, j] = v["count"]
        A[j, i] = v["count"]
    chrom_of = [ci for ci, c in enumerate(t) for _ in c]
    return cooler.Cooler(uri), A, chrom_of


def units(tier):
    th = tier == "thorough"
    fam6 = [nm for nm, _ in alpha.structured(6, True) if nm != "empty"] if th else QUICK_FAM
    for ti in range(3):
        for mat in fam6:
            for mode in MODES:
                yield {"leg": "product", "kind": "s6", "t": ti, "mat": mat, "mode": mode}
    if th:
        for ti in range(3):
            for mat, _ in alpha.structured(8, True):
                if mat == "empty":
                    continue   # balancing a cooler without any pixel is outside the statement (nothing converges)
                for mode in MODES:
                    yield {"leg": "product", "kind": "s8", "t": ti, "mat": mat, "mode": mode}
        for ti in range(2):
            for lo in range(0, 1024, 8):   # pattern 0 (empty) is skipped inside
                yield {"leg": "product4", "t": ti, "lo": lo, "hi": lo + 8}
    for ti in range(3):
        for mat in ("full", "checker", "mid_empty"):
            for mode in MODES:
                yield {"leg": "product", "kind": "s6f", "t": ti, "mat": mat, "mode": mode}
    for ti in range(3):
        for mode in MODES:
            yield {"leg": "product", "kind": "s6z", "t": ti, "mat": "full", "mode": mode}
    for mode in MODES:
        yield {"leg": "sameuri", "mode": mode}
    for ti in range(3):
        yield {"leg": "cli-blacklist", "t": ti}
    for ti in range(3):
        for mat in ("full", "mid_empty"):
            yield {"leg": "cli-opts", "t": ti, "mat": mat}
    sw = [("s6", ti, mat) for ti in range(3) for mat in (("full", "checker", "mid_empty", "sparse3", "off1", "corners") if th else ("full", "mid_empty"))]
    for kind, ti, mat in sw:
        for dim in ("min_count", "blacklist", "tol", "max_iters", "x0", "rescale", "chunksize"):
            yield {"leg": "sweep", "kind": kind, "t": ti, "mat": mat, "dim": dim}


def judge(R, inner, A, chrom_of, opts, w, st):
    """flatness + mask clauses for one balancing run. opts: dict of ref_balance keyword args (mode, ignore_diags ...)"""
    n = len(A)
    mode = opts["mode"]
    w = np.asarray(w, dtype=float)
    ref, rs, rv, info = rb.ref_balance(A, chrom_of, double_diag=True, **opts)
    conv = np.atleast_1d(st["converged"])
    scales = np.atleast_1d(st["scale"])
    ch = np.array(chrom_of)
    scopes = [np.where(ch == c)[0] for c in sorted(set(chrom_of))] if mode == "cis" else [np.arange(n)]
    if len(conv) != len(scopes):
        R.mismatch("stats-shape", inner, f"converged={st['converged']!r} for {len(scopes)} scopes")
        return
    # ---- mask ----
    rowF, F = rb.row_sums(A, chrom_of, mode, opts["ignore_diags"], np.ones(n), double_diag=True)
    nan_w = np.isnan(w)
    if np.any(~nan_w & ~(np.isfinite(w) & (w > 0))):
        R.mismatch("weight-not-finite-positive", inner, f"w={w.tolist()}")
    any_conv = False
    for k, idx in enumerate(scopes):
        if not bool(conv[k]):
            R.cls("scope:not-converged")
            continue
        R.cls("scope:converged")
        any_conv = True
        # undecided bins: zero filtered marginal in the scope the sweep works on; MAD near-ties
        und = set(info["near_cutoff"]) | set(info.get("nan_marg", ()))
        for b in idx:
            # a bin without any data is left open ONLY when no documented filter excludes it (all of min_nnz, min_count, MAD-max,
            # blacklist, x0 leave it in): with a filter that drops it (zero non-zeros < min_nnz, zero count < min_count, a log-marginal
            # of minus infinity below every MAD cutoff) the reference says NaN and NaN is demanded
            if rowF[b] == 0 and not np.isnan(ref[b]):
                und.add(int(b))
        want_nan = {int(b) for b in idx if np.isnan(ref[b])} - und
        got_nan = {int(b) for b in idx if nan_w[b]} - und
        if want_nan != got_nan:
            R.mismatch("nan-set!=documented-filters", inner,
                       f"scope={idx.tolist()} got_nan={sorted(got_nan)} want_nan={sorted(want_nan)} w={w.tolist()} ref={ref.tolist()}")
            continue
        R.cls("mask:some-nan" if got_nan else "mask:all-finite")
        # ---- flatness on the TRUE filtered matrix (diagonal counted once) ----
        r, _ = rb.row_sums(A, chrom_of, mode, opts["ignore_diags"], w, double_diag=False)
        rr = r[idx]
        rr = rr[rr != 0]
        if len(rr) < 1:
            continue
        mu = float(scales[k])
        N = len(rr)
        tol = opts["tol"]
        if not np.isfinite(mu) or mu <= 0:
            R.mismatch("scale-not-positive-on-converged-scope", inner, f"scale={mu}")
            continue
        eps = np.sqrt(N * tol) / mu
        if eps >= 1:
            R.cls("bound:vacuous(eps>=1)")
            continue
        target = 1.0 if opts["rescale"] else mu
        lo, hi = target / (1 + eps), target / (1 - eps)
        slack = 1e-9 * target
        if rr.min() < lo - slack or rr.max() > hi + slack:
            R.mismatch("row-sums-not-flat", inner,
                       f"scope={idx.tolist()} rows={rr.tolist()} allowed=[{lo},{hi}] scale={mu} N={N} tol={tol} w={w.tolist()}")
        elif N >= 2:
            R.c["nontrivial_scopes"] += 1
    return any_conv


def run_one(R, inner, clr, A, chrom_of, opts, chunksize=None, x0=None, blacklist=None):
    import cooler
    R.c["evaluations"] += 1
    R.c["transitions"] += 1
    R.classes["mode:" + opts["mode"]] += 1
    kw = dict(cis_only=opts["mode"] == "cis", trans_only=opts["mode"] == "trans", ignore_diags=opts["ignore_diags"],
              min_nnz=opts["min_nnz"], min_count=opts["min_count"], mad_max=opts["mad_max"], tol=opts["tol"],
              max_iters=opts["max_iters"], rescale_marginals=opts["rescale"], chunksize=chunksize,
              blacklist=list(blacklist) if blacklist is not None else None, x0=None if x0 is None else np.array(x0, dtype=float))
    try:
        with np.errstate(all="ignore"):
            w, st = cooler.balance_cooler(clr, **kw)
    except Exception as e:
        R.mismatch("balance-raises:" + type(e).__name__, inner, f"{e!s:.300}")
        return
    o = dict(opts)
    o["blacklist"] = blacklist
    o["x0"] = x0
    nt0 = R.c["nontrivial_scopes"]
    judge(R, inner, A, chrom_of, o, w, st)
    if R.c["nontrivial_scopes"] > nt0:
        R.c["nontrivial"] += 1
    R.outcome((inner.get("mat"), opts["mode"], np.isnan(w).tolist(), np.atleast_1d(st["converged"]).tolist()))


def base_opts(mode, igd, mn, mad):
    return {"mode": mode, "ignore_diags": igd, "min_nnz": mn, "min_count": 0, "mad_max": mad, "tol": 1e-5, "max_iters": 50, "rescale": True}


def _product(R, unit, only):
    clr, A, chrom_of = get_cooler(unit["kind"], unit["t"], unit["mat"])
    R.add("states")
    R.add("traces")
    kk = 0
    for igd, mn, mad in itertools.product((0, 1, 2, 3), (0, 1, 2, 3), (0, 1, 3)):
        kk += 1
        inner = {"mat": unit["mat"], "ignore_diags": igd, "min_nnz": mn, "mad_max": mad}
        if only is not None and only != inner:
            continue
        R.order = (R.order[0], kk)
        run_one(R, inner, clr, A, chrom_of, base_opts(unit["mode"], igd, mn, mad))


def _product4(R, unit, only):
    R.add("traces")
    kk = 0
    for pat in range(max(1, unit["lo"]), unit["hi"]):
        clr, A, chrom_of = get_cooler("p4", unit["t"], pat)
        R.add("states")
        for mode, igd, mn, mad in itertools.product(MODES, (0, 1, 2, 3), (0, 2), (0, 1, 3)):
            kk += 1
            inner = {"mat": pat, "mode": mode, "ignore_diags": igd, "min_nnz": mn, "mad_max": mad}
            if only is not None and only != inner:
                continue
            R.order = (R.order[0], kk)
            run_one(R, inner, clr, A, chrom_of, base_opts(mode, igd, mn, mad))
        fx._cache.pop(("c10", "p4", unit["t"], pat), None)


def _sweep(R, unit, only):
    clr, A, chrom_of = get_cooler(unit["kind"], unit["t"], unit["mat"])
    n = len(A)
    R.add("states")
    R.add("traces")
    tot = float(A.sum())
    dim = unit["dim"]
    vals = {
        "min_count": [0, 5, 40, int(tot)],
        "blacklist": [None, [], [0], [1, 3], list(range(n))],
        "tol": [1e-2, 1e-5, 1e-9],
        "max_iters": [1, 2, 5, 50, 200],
        "x0": [None, [1.0 + k / 4 for k in range(n)], [0.0 if k == 1 else 2.0 for k in range(n)], [float("nan") if k == 2 else 0.5 for k in range(n)]],
        "rescale": [True, False],
        "chunksize": [None, 2, 7] if unit["mat"] != "mid_empty" else [None, 1],
    }[dim]
    kk = 0
    for ci, (mode, igd, mn, mad) in enumerate(CORE):
        for vi, v in enumerate(vals):
            kk += 1
            inner = {"mat": unit["mat"], "core": ci, "dim": dim, "value": vi}
            if only is not None and only != inner:
                continue
            R.order = (R.order[0], kk)
            o = base_opts(mode, igd, mn, mad)
            extra = {}
            if dim in ("min_count", "tol", "max_iters", "rescale"):
                o[dim] = v
            elif dim == "blacklist":
                extra["blacklist"] = v
            elif dim == "x0":
                extra["x0"] = v
            else:
                extra["chunksize"] = v
            run_one(R, inner, clr, A, chrom_of, o, **extra)


def _sameuri(R, mode, only):
    """balance, re-create the file at the SAME URI with another bin table / matrix, balance again - the flatness and mask clauses
    must hold for the data that is there now"""
    import cooler
    from vmc import build
    R.add("states")
    R.add("traces")
    p = scratch.fresh()
    try:
        for step, (ti, mat) in enumerate([(0, "full"), (1, "full"), (2, "full"), (1, "checker"), (2, "mid_empty"), (1, "full"), (2, "sparse3"), (0, "off1")]):
            inner = {"step": step, "t": ti, "mat": mat, "mode": mode}
            if only is not None and only.get("step", 99) < step:
                break
            R.order = (R.order[0], step)
            t, n, cells = cooler_spec("s6", ti, mat)
            bins = alpha.table_bins(t, "chr")
            pix = {c: alpha.value(n, c[0], c[1]) for c in cells}
            build.create(p, bins, pix, True)
            A = np.zeros((n, n))
            for (i, j), v in pix.items():
                A[i, j] = A[j, i] = v
            chrom_of = [ci for ci, c in enumerate(t) for _ in c]
            for igd, mn in ((1, 0), (2, 1)):
                run_one(R, {**inner, "ignore_diags": igd, "min_nnz": mn}, cooler.Cooler(p), A, chrom_of, base_opts(mode, igd, mn, 0), chunksize=4)
    finally:
        scratch.rm(p)


def _cli_blacklist(R, ti, only):
    """`cooler balance --blacklist <BED>`: intervals aligned with bins, starting / ending inside a bin, inside one bin, spanning a
    chromosome; the stored weights must carry NaN exactly on the bins that overlap an interval (plus the other filters)"""
    import cooler
    import shutil
    from vmc import build, models
    table = [((2, 2, 2, 2, 2, 2),), ((2, 2, 2, 2), (2, 2)), ((2, 2), (2, 2, 2), (2,))][ti]
    bins = alpha.table_bins(table, "chr")
    n = len(bins)
    names = alpha.NAMES["chr"][:len(table)]
    cells = alpha.structured(n, True)[1][1]
    pix = {c: alpha.value(n, c[0], c[1]) for c in cells}
    A = np.zeros((n, n))
    for (i, j), v in pix.items():
        A[i, j] = A[j, i] = v
    chrom_of = [ci for ci, c in enumerate(table) for _ in c]
    R.add("states")
    R.add("traces")
    d = scratch.sub(f"c10bl_{ti}")
    import os
    sizes = models.ref_chromsizes(bins)
    c0 = names[0]
    L0 = sizes[c0]
    beds = [[(c0, 0, 2)], [(c0, 1, 2)], [(c0, 1, 3)], [(c0, 3, 4)], [(c0, 2, L0)], [(c0, 1, 2), (names[-1], 0, 1)], [(names[-1], 0, sizes[names[-1]])], [(c0, 3, 3 + 1), (c0, 0, 1)]]
    for kk, ivs in enumerate(beds):
        inner = {"t": ti, "bed": [list(x) for x in ivs]}
        if only is not None and only != inner:
            continue
        R.order = (R.order[0], kk)
        R.c["evaluations"] += 1
        R.c["transitions"] += 1
        R.classes["cli-blacklist"] += 1
        bad = sorted({k for (c, s, e) in ivs for k in models.ref_cover(bins, c, s, e)})
        p = os.path.join(d, f"c{kk}.cool")
        build.create(p, bins, pix, True)
        bed = os.path.join(d, f"b{kk}.bed")
        with open(bed, "w") as fh:
            # with a header line: the CLI sniffs for one, and a one-line BED WITHOUT header is taken to be all header
            # (`need at least one array to concatenate`) - an error outside this property, noted in DESIGN section 12
            fh.write("chrom\tstart\tend\n")
            for iv in ivs:
                fh.write("\t".join(str(x) for x in iv) + "\n")
        code, so, exc = build.cli(["balance", "--blacklist", bed, "--min-nnz", 0, "--mad-max", 0, "--ignore-diags", 1, "--max-iters", 300, p])
        if code != 0 or exc is not None:
            R.mismatch("balance-cli-fails", inner, f"code={code} exc={exc!r:.200}")
            continue
        w = cooler.Cooler(p).bins()["weight"][:].values
        o = base_opts("gw", 1, 0, 0)
        o["max_iters"] = 300
        o["blacklist"] = bad
        o["x0"] = None
        ref, rs, rv, info = rb.ref_balance(A, chrom_of, double_diag=True, **o)
        rowF, _ = rb.row_sums(A, chrom_of, "gw", 1, np.ones(n), double_diag=True)
        und = {b for b in range(n) if rowF[b] == 0}
        if {int(b) for b in range(n) if np.isnan(w[b])} - und != {int(b) for b in range(n) if np.isnan(ref[b])} - und:
            R.mismatch("nan-set!=documented-filters(cli --blacklist)", inner, f"NaN at {[int(b) for b in range(n) if np.isnan(w[b])]} blacklisted bins {bad}")
        else:
            R.c["nontrivial"] += 1
    scratch.rm(d)


def _cli_opts(R, ti, mat, only):
    """the options of `cooler balance` that choose WHAT is computed and WHERE it goes: --cis-only / --trans-only, --min-count, --tol,
    --name, --force, --check, --stdout, and the library's own store=True / store_name. Oracle: the column that ends up in the file
    (values, NaN set, recorded statistics) is what the library call with the corresponding arguments returns - which the product leg
    judges against the dense reference - and nothing else in the bin table changes."""
    import cooler
    import os
    import shutil
    import h5py
    from vmc import build
    clr0, A, chrom_of = get_cooler("s6", ti, mat)
    n = len(A)
    R.add("states")
    R.add("traces")
    d = scratch.sub(f"c10co_{ti}_{mat}_{os.getpid()}")
    kk = 0
    rowmin = sorted({int(x) for x in A.sum(axis=0)})
    mc = rowmin[len(rowmin) // 2]
    for mode in MODES:
        for min_count in (0, mc):
            for tol in (1e-5, 1e-1):
                for name in ("weight", "w2"):
                    kk += 1
                    inner = {"mode": mode, "min_count": min_count, "tol": tol, "name": name}
                    if only is not None and only != inner:
                        continue
                    R.order = (R.order[0], kk)
                    R.ev(1, 1)
                    R.add("transitions", 4)
                    R.cls("cli-opts")
                    R.cls("mode:" + mode)
                    p = os.path.join(d, f"c{kk}.cool")
                    shutil.copy(clr0.filename, p)
                    kw = dict(cis_only=mode == "cis", trans_only=mode == "trans", ignore_diags=1, min_nnz=1, min_count=min_count, mad_max=0,
                              tol=tol, max_iters=200, rescale_marginals=True)
                    with np.errstate(all="ignore"):
                        w0, st0 = cooler.balance_cooler(cooler.Cooler(p), **kw)
                    flags = {"gw": [], "cis": ["--cis-only"], "trans": ["--trans-only"]}[mode]
                    common = flags + ["--min-nnz", 1, "--min-count", min_count, "--mad-max", 0, "--ignore-diags", 1, "--tol", tol,
                                      "--max-iters", 200, "--convergence-policy", "store_final"]
                    args = ["balance"] + common + (["--name", name] if name != "weight" or kk % 2 else []) + [p]

                    def same(w, tag, rtol=1e-9):
                        w = np.asarray(w, dtype=float)
                        if w.shape != w0.shape or not np.array_equal(np.isnan(w), np.isnan(w0)) or \
                                not np.allclose(np.nan_to_num(w), np.nan_to_num(w0), rtol=rtol, atol=0):
                            R.mismatch("balance-cli-differs-from-api:" + tag, inner, f"cli={w.tolist()} api={w0.tolist()}")
                            return False
                        return True
                    # --check before: not balanced
                    code, so, exc = build.cli(["balance", "--check", "--name", name, p])
                    if code != 1:
                        R.mismatch("balance --check says balanced on a file without the column", inner, f"code={code} out={so!s:.100} exc={exc!r:.100}")
                    # --stdout: prints, stores nothing
                    code, so, exc = build.cli(["balance"] + common + ["--name", name, "--stdout", p])
                    if code != 0 or exc is not None:
                        R.mismatch("balance-cli-fails:--stdout", inner, f"code={code} exc={exc!r:.200}")
                    else:
                        vals = [float(x) if x.strip() else np.nan for x in so.split("\n")][:n]
                        same(vals, "--stdout", rtol=1e-5)
                        if name in cooler.Cooler(p).bins().columns:
                            R.mismatch("balance --stdout stores a column", inner, "")
                    # the run proper
                    code, so, exc = build.cli(args)
                    if code != 0 or exc is not None:
                        R.mismatch("balance-cli-fails", inner, f"code={code} exc={exc!r:.200}")
                        continue
                    c = cooler.Cooler(p)
                    cols = list(c.bins().columns)
                    if cols != ["chrom", "start", "end", name]:
                        R.mismatch("balance-cli-columns", inner, f"{cols}")
                        continue
                    same(c.bins()[name][:].values, "stored")
                    with h5py.File(p, "r") as f:
                        at = dict(f["bins"][name].attrs)
                    for key in ("converged", "scale", "var", "tol", "min_nnz", "min_count", "mad_max", "cis_only", "ignore_diags"):
                        if key not in st0:
                            continue
                        a, b = np.atleast_1d(at.get(key)), np.atleast_1d(st0[key])
                        try:
                            okk = a.shape == b.shape and (np.allclose(a.astype(float), b.astype(float), rtol=1e-9, equal_nan=True))
                        except Exception:
                            okk = str(a.tolist()) == str(b.tolist())
                        if not okk:
                            R.mismatch("balance-cli-stored-statistics-differ", inner, f"{key}: stored={at.get(key)!r} api={st0[key]!r}")
                    # pixels and the other bin columns untouched
                    px = c.pixels()[:]
                    px0 = clr0.pixels()[:]
                    if not px.equals(px0):
                        R.mismatch("balance-cli-touches-pixels", inner, "")
                    # --check after: balanced under this name only
                    code, so, exc = build.cli(["balance", "--check", "--name", name, p])
                    if code != 0:
                        R.mismatch("balance --check says not balanced after balancing", inner, f"code={code}")
                    other = "w2" if name == "weight" else "weight"
                    code, so, exc = build.cli(["balance", "--check", "--name", other, p])
                    if code != 1:
                        R.mismatch("balance --check true for another column name", inner, f"code={code}")
                    # a second run without --force refuses and leaves the column; with --force it replaces it (other options -> other values)
                    stored = c.bins()[name][:].values.copy()
                    args2 = ["balance", "--min-nnz", 1, "--mad-max", 0, "--ignore-diags", 2, "--max-iters", 200, "--name", name]
                    code, so, exc = build.cli(args2 + [p])
                    now = cooler.Cooler(p).bins()[name][:].values
                    if code == 0 or not np.array_equal(np.nan_to_num(now), np.nan_to_num(stored)):
                        R.mismatch("balance without --force replaces an existing column", inner, f"code={code}")
                    code, so, exc = build.cli(args2 + ["--force", p])
                    with np.errstate(all="ignore"):
                        w2, _ = cooler.balance_cooler(clr0, ignore_diags=2, min_nnz=1, mad_max=0, max_iters=200)
                    now = cooler.Cooler(p).bins()[name][:].values
                    if code != 0 or exc is not None or not np.allclose(np.nan_to_num(now), np.nan_to_num(w2), rtol=1e-9, atol=0) or \
                            not np.array_equal(np.isnan(now), np.isnan(w2)):
                        R.mismatch("balance --force does not replace the column", inner, f"code={code} exc={exc!r:.100} now={now.tolist()} want={w2.tolist()}")
                    # the library's own store / store_name
                    p2 = os.path.join(d, f"s{kk}.cool")
                    shutil.copy(clr0.filename, p2)
                    with np.errstate(all="ignore"):
                        w3, st3 = cooler.balance_cooler(cooler.Cooler(p2), store=True, store_name=name, **kw)
                    c2 = cooler.Cooler(p2)
                    if list(c2.bins().columns) != ["chrom", "start", "end", name]:
                        R.mismatch("store_name-not-honoured", inner, f"{list(c2.bins().columns)}")
                    else:
                        same(w3, "api-store-returned")
                        same(c2.bins()[name][:].values, "api-store-stored")
                    scratch.rm(p)
                    scratch.rm(p2)
    scratch.rm(d)


def run(unit, R, tier, only=None):
    leg = unit["leg"]
    if leg == "cli-opts":
        _cli_opts(R, unit["t"], unit["mat"], only)
        return
    if leg == "cli-blacklist":
        _cli_blacklist(R, unit["t"], only)
        return
    if leg == "sameuri":
        _sameuri(R, unit["mode"], only)
        return
    if leg == "product":
        _product(R, unit, only)
        if unit["mat"] == "checker" and unit["t"] == 1:
            t, n, cells = cooler_spec(unit["kind"], unit["t"], unit["mat"])
            R.sample({"leg": leg, "table": [list(c) for c in t], "stored_cells": cells, "mode": unit["mode"],
                      "options": "ignore_diags {0..3} x min_nnz {0..3} x mad_max {0,1,3}"})
    elif leg == "product4":
        _product4(R, unit, only)
    elif leg == "sweep":
        _sweep(R, unit, only)
    else:
        raise ValueError(leg)


def _replay_opts(m):
    u, inner = m["case"]["unit"], m["case"]["inner"]
    if u["leg"] == "product":
        return u["kind"], u["t"], u["mat"], base_opts(u["mode"], inner["ignore_diags"], inner["min_nnz"], inner["mad_max"])
    if u["leg"] == "sameuri":
        return "s6", inner["t"], inner["mat"], base_opts(inner["mode"], inner["ignore_diags"], inner["min_nnz"], 0)
    if u["leg"] == "product4":
        return "p4", u["t"], inner["mat"], base_opts(inner["mode"], inner["ignore_diags"], inner["min_nnz"], inner["mad_max"])
    mode, igd, mn, mad = CORE[inner["core"]]
    return u["kind"], u["t"], u["mat"], base_opts(mode, igd, mn, mad)


def classify(m):
    """F14: ignore_diags=0 and a non-zero diagonal among the retained bins - the implementation's marginal counts a diagonal pixel
    twice, so the TRUE row sums are not flat; signature re-verified from the detail: the row sums become flat (same bound) when the
    diagonal is counted twice.
    F15: trans_only - the returned weights are flat only after multiplication by the per-chromosome factor 1/(1 - n_c/N); re-verified
    the same way with w * cweights."""
    if m["clause"] != "row-sums-not-flat":
        return None
    try:
        kind, ti, mat, o = _replay_opts(m)
        t, n, cells = cooler_spec(kind, ti, mat)
        A = np.zeros((n, n))
        for (i, j) in cells:
            A[i, j] = A[j, i] = zcount(n, (i, j)) if kind == "s6z" else alpha.value(n, i, j) / (64.0 if kind == "s6f" else 1.0)
        chrom_of = [ci for ci, c in enumerate(t) for _ in c]
        d = m["detail"]
        w = np.array([float(x) if x != "nan" else np.nan for x in d[d.index(" w=[") + 4:d.rindex("]")].replace(" ", "").split(",")])
        idx = np.array([int(x) for x in d[d.index("scope=[") + 7:d.index("]", d.index("scope=["))].split(",")])
        lo, hi = [float(x) for x in d[d.index("allowed=[") + 9:d.index("]", d.index("allowed=["))].split(",")]

        def flat(r):
            rr = r[idx]
            rr = rr[rr != 0]
            return len(rr) and rr.min() >= lo - 1e-9 and rr.max() <= hi + 1e-9
        if o["mode"] == "trans":
            sizes = {c: chrom_of.count(c) for c in set(chrom_of)}
            cw = np.array([1.0 / (1 - sizes[c] / n) if sizes[c] < n else np.inf for c in chrom_of])
            r, _ = rb.row_sums(A, chrom_of, "trans", o["ignore_diags"], w, cweights=cw)
            if flat(r):
                return "F15"
        if o["ignore_diags"] == 0 and o["mode"] != "trans" and any(A[i, i] != 0 and not np.isnan(w[i]) for i in idx):
            r, _ = rb.row_sums(A, chrom_of, o["mode"], 0, w, double_diag=True)
            if flat(r):
                return "F14"
    except Exception:
        return None
    return None
