"""C16 — text export agrees with the API; re-importing it reproduces the cooler (E1)."""
from __future__ import annotations

import itertools
import os

import h5py
import numpy as np

from vmc import alpha, build, fixtures as fx, h5ref, models
from vmc.core import scratch

ID = "C16"
LEVEL = "model_checking"
RULE = ("dump leg: 4 coolers (both modes, fixed and variable table, weights with a NaN, an extra bin column) x FULL product --join x -f x -b "
        "x --one-based-ids x --one-based-starts x -H x -k {1,2,1e6} x regions {none, whole chromosomes, bin-aligned sub-ranges, unaligned "
        "ranges, -r/-r2 pairs} (+ --annotate, -t chroms|bins, -c swept singly); oracle: the rows a reference computes from the raw "
        "HDF5 content (stored records inside the box in storage order; with -f on symmetric storage the non-zero cells of the symmetric "
        "window), ids/starts +1 exactly when asked, header == column names, balanced = count*w1*w2. roundtrip leg: dump -> load -f coo "
        "(+/- one-based), dump --join -> load -f bg2, chunksize 1..nnz+1, both modes. layouts leg: pairs files whose 4 positional (+ one "
        "value) columns occupy EVERY injective assignment into 6 columns for `cload pairs --field`, likewise bg2/coo value columns for "
        "`load --field`; oracle: reference binning + aggregation. zoomify leg: every -r spelling (shared with C09). Non-trivial: >=1 row "
        "dumped and >=1 option on / a non-monotone layout. Distinct by construction.")
EXTRA_LEGS = 'round trip on every cooler of the check plus two coolers whose chromosome names are numerals (BED bin table).' + ' small chunk sizes of the round trip are loaded with --max-merge 2 / 3 (two-pass merge).'
BOUNDS = {"quick": "dump: ~20 regions per cooler incl. nested / partially overlapping -r/-r2 pairs; layouts: all 360 positional layouts + every 4th of the 720 five-column layouts",
          "thorough": "dump: + all aligned region pairs; layouts: all 360 + all 720 + every 4th six-column layout"}
ASSUMPTIONS = ["only the count column is dumped by `cooler dump` (documented behaviour); the row ORDER is compared for the direct engine, the row SET for -f"]
EXPECT_CLASSES = {"*": ["dump", "dump:fill", "dump:join", "dump:balanced", "roundtrip", "layout:monotone", "layout:non-monotone", "zoomify-r"]}

SPECS = [  # (table, symm)
    (((2, 2, 2), (2, 2)), True), (((1, 3), (2, 1, 1)), True), (((2, 2), (2, 2)), False), (((2, 1), (3,), (1, 1)), False),
]


# coolers whose chromosome names are numerals ('2', '10', '1'): only used by the round-trip leg (a BED bin table with such names)
SPECS_NUM = [(((2, 2, 2), (2, 2)), True), (((1, 3), (2, 1, 1)), False)]


def make(si):
    import cooler
    key = ("c16", si)
    table, symm = (SPECS + SPECS_NUM)[si]
    bins = alpha.table_bins(table, "chr" if si < len(SPECS) else "num")
    n = len(bins)
    cells = [c for k, c in enumerate(alpha.cells(n, symm)) if k % 3 != 1]
    pix = fx.pixvals(cells, n)
    if key not in fx._cache:
        bdf = build.bins_df(bins)
        bdf["gc"] = [0.5 + k / 8 for k in range(n)]
        p = scratch.fresh()
        cooler.create_cooler(p, bdf, fx.frame(pix, ("count",)), symmetric_upper=symm, ordered=True)
        w = np.array([0.5 + 0.25 * k for k in range(n)])
        w[1] = np.nan
        with h5py.File(p, "r+") as f:
            f["bins"].create_dataset("weight", data=w)
        fx._cache[key] = p
    w = np.array([0.5 + 0.25 * k for k in range(n)])
    w[1] = np.nan
    return fx._cache[key], bins, pix, symm, w


def regions(bins, th):
    sizes = models.ref_chromsizes(bins)
    names = list(sizes)
    out = [(None, None)]
    singles = []
    for c in names:
        singles.append(c)
        edges = sorted({0} | {b[2] for b in bins if b[0] == c})
        for a, b in itertools.combinations(edges, 2):
            if (a, b) != (0, sizes[c]):
                singles.append(f"{c}:{a}-{b}")
        if sizes[c] >= 3:
            singles.append(f"{c}:1-{sizes[c] - 1}")       # unaligned
            singles.append(f"{c}:1-2")
    keep = singles if th else singles[:7]
    out += [(r, None) for r in keep]
    # quick: disjoint pairs, pairs on different chromosomes, and OVERLAPPING but not identical pairs (column range nested in the row
    # range and the reverse, partial overlap) - the windows that start above the diagonal and extend below it
    nb = {c: sum(1 for b in bins if b[0] == c) for c in names}
    big = max(names, key=lambda c: nb[c])          # the chromosome with most bins: nested windows there reach below the diagonal
    ed = sorted({0} | {b[2] for b in bins if b[0] == big})
    whole, mid, head, tail = big, f"{big}:{ed[1]}-{ed[2]}", f"{big}:{ed[0]}-{ed[2]}", f"{big}:{ed[1]}-{ed[-1]}"
    pairs = list(itertools.product(singles, repeat=2)) if th else [(singles[0], singles[-1]), (singles[-1], singles[0]), (singles[1], singles[2]),
                                                                       (singles[2], singles[1]), (names[0], names[-1]), (names[-1], names[0]),
                                                                       (whole, mid), (mid, whole), (head, tail), (tail, head), (whole, tail), (tail, whole),
                                                                       (head, mid), (mid, head)]
    out += [(a, b) for a, b in pairs if a != b]
    return out


def extent_of(bins, reg):
    if reg is None:
        return 0, len(bins)
    c, s, e = models.ref_region_string(reg)
    sizes = models.ref_chromsizes(bins)
    s = 0 if s is None else s
    e = sizes[c] if e is None else e
    cov = models.ref_cover(bins, c, s, e)
    return cov[0], cov[-1] + 1


def fmt_num(x):
    if isinstance(x, float):
        if x != x:
            return ""
        return repr(x) if x != int(x) else repr(x)
    return str(x)


def _legacy_copy(p, si):
    key = ("c16-legacy", si)
    if key not in fx._cache:
        import shutil
        q = scratch.fresh()
        shutil.copy(p, q)
        with h5py.File(q, "r+") as f:
            del f.attrs["storage-mode"]
            f.attrs["format-version"] = 2
        fx._cache[key] = q
    return fx._cache[key]


def _dump(R, si, tier, only, part=0, legacy=False):
    th = tier == "thorough"
    p, bins, pix, symm, w = make(si)
    if legacy:
        p = _legacy_copy(p, si)
        R.cls("dump:legacy-file")
    n = len(bins)
    keys = sorted(pix)
    M = np.zeros((n, n))
    for (i, j), v in pix.items():
        M[i, j] = v["count"]
        if symm:
            M[j, i] = v["count"]
    R.add("states")
    R.add("traces")
    kk = 0
    for (r1, r2) in regions(bins, th)[part::8]:
        i0, i1 = extent_of(bins, r1)
        j0, j1 = extent_of(bins, r2) if r2 else (i0, i1)
        for join, fill, bal, ob_ids, ob_st, hdr in itertools.product((0, 1), repeat=6):
            for k in (1, 2, 10 ** 6):
                kk += 1
                inner = {"r1": r1, "r2": r2, "join": join, "fill": fill, "bal": bal, "one_based_ids": ob_ids, "one_based_starts": ob_st, "header": hdr, "k": k}
                if only is not None and only != inner:
                    continue
                if k != 10 ** 6 and (kk % 3) and not th:
                    continue     # quick: the small read chunk sizes on every third flag combination
                R.order = (R.order[0], kk)
                args = ["dump", "--float-format", ".17g", "-k", k] + (["--join"] if join else []) + (["-f"] if fill else []) + (["-b"] if bal else []) \
                    + (["--one-based-ids"] if ob_ids else []) + (["--one-based-starts"] if ob_st else []) + (["-H"] if hdr else [])
                if r1:
                    args += ["-r", r1]
                if r2:
                    args += ["-r2", r2]
                code, so, exc = build.cli(args + [p])
                R.c["evaluations"] += 1
                R.c["transitions"] += 1
                R.classes["dump"] += 1
                if fill:
                    R.classes["dump:fill"] += 1
                if join:
                    R.classes["dump:join"] += 1
                if bal:
                    R.classes["dump:balanced"] += 1
                if code != 0 or exc is not None:
                    R.mismatch("dump-fails", inner, f"code={code} exc={exc!r}")
                    continue
                if fill and symm:
                    cells = [(i, j) for i in range(i0, i1) for j in range(j0, j1) if M[i, j] != 0]
                    ordered = False
                else:
                    cells = [c for c in keys if i0 <= c[0] < i1 and j0 <= c[1] < j1]
                    ordered = True
                want = []
                for (i, j) in cells:
                    row = []
                    if join:
                        for b in (bins[i], bins[j]):
                            row += [b[0], str(b[1] + (1 if ob_st else 0)), str(b[2])]
                    else:
                        row += [str(i + (1 if ob_ids else 0)), str(j + (1 if ob_ids else 0))]
                    row.append(str(int(M[i, j])))
                    if bal:
                        v = M[i, j] * w[i] * w[j]
                        row.append("" if v != v else format(v, ".17g"))
                    want.append(tuple(row))
                lines = so.split("\n")
                if lines and lines[-1] == "":
                    lines = lines[:-1]
                got = [tuple(ln.split("\t")) for ln in lines]
                R.c["nontrivial"] += bool(want and (join or fill or bal or ob_ids or ob_st or r1))
                if hdr and want:
                    cols = (["chrom1", "start1", "end1", "chrom2", "start2", "end2"] if join else ["bin1_id", "bin2_id"]) + ["count"] + (["balanced"] if bal else [])
                    if not got or list(got[0]) != cols:
                        R.mismatch("header!=column-names", inner, f"got={got[:1]} want={cols}")
                        continue
                    got = got[1:]
                    if any(list(g) == cols for g in got):
                        R.mismatch("header-repeated", inner, "")
                elif hdr and got and got[0][0] in ("bin1_id", "chrom1"):
                    got = got[1:]
                if (got != want) if ordered else (sorted(got) != sorted(want) or len(set(got)) != len(got)):
                    clause = "dump!=library-query"
                    if ob_ids and not join and [tuple(x) for x in got] == [tuple([str(int(r[0]) - 1), str(int(r[1]) - 1)] + list(r[2:])) for r in want]:
                        clause = "one-based-ids-has-no-effect"
                    R.mismatch(clause, inner, f"got={got[:6]} want={want[:6]}")
    # single sweeps: -t chroms / bins, -c, --annotate
    for extra, check in [] if part else ((["-t", "chroms"], "chroms"), (["-t", "bins", "-H"], "bins"), (["-t", "bins", "-c", "start,gc"], "bins-cols"),
                         (["--annotate", "gc", "-H"], "annotate")):
        inner = {"extra": extra}
        if only is not None and only != inner:
            continue
        R.c["evaluations"] += 1
        R.c["transitions"] += 1
        code, so, exc = build.cli(["dump", "--float-format", ".17g"] + extra + [p])
        if code != 0 or exc is not None:
            R.mismatch("dump-fails", inner, f"code={code} exc={exc!r}")
            continue
        lines = [ln.split("\t") for ln in so.strip("\n").split("\n")]
        sizes = models.ref_chromsizes(bins)
        if check == "chroms":
            if [tuple(x) for x in lines] != [(c, str(L)) for c, L in sizes.items()]:
                R.mismatch("dump-chroms", inner, f"{lines}")
        elif check == "bins":
            wantb = [[b[0], str(b[1]), str(b[2]), format(0.5 + k / 8, ".17g"), ("" if k == 1 else format(w[k], ".17g"))] for k, b in enumerate(bins)]
            if lines[0] != ["chrom", "start", "end", "gc", "weight"] or lines[1:] != wantb:
                R.mismatch("dump-bins", inner, f"{lines[:3]}")
        elif check == "bins-cols":
            if lines != [[str(b[1]), format(0.5 + k / 8, ".17g")] for k, b in enumerate(bins)]:
                R.mismatch("dump-bins-columns", inner, f"{lines[:3]}")
        else:
            wanta = [[str(i), str(j), str(int(M[i, j])), format(0.5 + i / 8, ".17g"), format(0.5 + j / 8, ".17g")] for (i, j) in keys]
            if lines[0] != ["bin1_id", "bin2_id", "count", "gc1", "gc2"] or lines[1:] != wanta:
                R.mismatch("dump-annotate", inner, f"{lines[:3]} want={wanta[:2]}")
    if part == 0:
        R.sample({"leg": "dump", "cooler": si, "regions": regions(bins, th)[:8], "flags": "--join x -f x -b x --one-based-ids x --one-based-starts x -H x -k"})


def _roundtrip(R, si, only):
    p, bins, pix, symm, w = make(si)
    nnz = len(pix)
    d = scratch.sub(f"c16rt{os.getpid()}_{si}")
    bed = os.path.join(d, "bins.bed")
    with open(bed, "w") as fh:
        for b in bins:
            fh.write("\t".join(str(x) for x in b) + "\n")
    want = {k: v["count"] for k, v in pix.items()}
    R.add("states")
    R.add("traces")
    kk = 0
    for fmt, dargs, largs in (("coo", [], []), ("coo", ["--one-based-ids"], ["--one-based"]), ("bg2", ["--join"], []), ("bg2", ["--join", "--one-based-starts"], ["--one-based"])):
        code, so, exc = build.cli(["dump"] + dargs + [p])
        if code != 0 or exc is not None:
            R.mismatch("dump-fails", {"dargs": dargs}, f"{exc!r}")
            continue
        txt = os.path.join(d, "dump.txt")
        with open(txt, "w") as fh:
            fh.write(so)
        for cs in list(range(1, nnz + 2)):
            kk += 1
            inner = {"format": fmt, "dump_args": dargs, "chunksize": cs}
            if only is not None and only != inner:
                continue
            R.order = (R.order[0], kk)
            R.ev(1, 1)
            R.add("transitions", 2)
            R.cls("roundtrip")
            out = os.path.join(d, f"o{kk}.cool")
            # small chunks: also a fan-in below the number of chunks (the external sort then merges in two passes)
            mm = ["--max-merge", 2 + cs % 2] if cs <= 4 else []
            code, so2, exc = build.cli(["load", "-f", fmt, "--chunksize", cs, "--temp-dir", d] + mm + largs + ([] if symm else ["-N"]) + [bed, txt, out])
            if code != 0 or exc is not None:
                R.mismatch("load-of-own-dump-fails", inner, f"code={code} exc={exc!r}")
                continue
            got, rd = fx.read(out)
            if {k: v["count"] for k, v in got.items()} != want:
                R.mismatch("reimported-cooler!=original", inner, f"got={got} want={want}")
            if [tuple(b) for b in rd["bins"]] != [tuple(b) for b in bins]:
                R.mismatch("reimported-bins!=original", inner, "")
            v = h5ref.validate(out)
            if v:
                R.mismatch("V:" + v[0], inner, f"{v}")
            scratch.rm(out)
    # ---- fractional counts: the dump of a float-count cooler loaded back with --count-as-float / --field count:dtype=float ----
    import cooler
    fp = os.path.join(d, "float.cool")
    fpix = {k: {"count": v["count"] + 0.25 * (1 + (k[0] + k[1]) % 3)} for k, v in pix.items()}
    build.create(fp, bins, fpix, symm, dtypes={"count": np.float64})
    fwant = {k: v["count"] for k, v in fpix.items()}
    for fmt, dargs in (("coo", []), ("bg2", ["--join"])):
        code, so, exc = build.cli(["dump"] + dargs + [fp])
        if code != 0 or exc is not None:
            R.mismatch("dump-fails", {"dargs": dargs, "float": True}, f"{exc!r}")
            continue
        txt = os.path.join(d, "fdump.txt")
        with open(txt, "w") as fh:
            fh.write(so)
        for how in (["--count-as-float"], ["--field", "count:dtype=float"], ["--field", "count=%d:dtype=float64" % (3 if fmt == "coo" else 7)]):
            for cs in (1, 2, nnz + 1):
                kk += 1
                inner = {"format": fmt, "float_counts_via": how, "chunksize": cs}
                if only is not None and only != inner:
                    continue
                R.order = (R.order[0], kk)
                R.ev(1, 1)
                R.add("transitions", 2)
                R.cls("roundtrip-float")
                out = os.path.join(d, f"f{kk}.cool")
                code, so2, exc = build.cli(["load", "-f", fmt, "--chunksize", cs, "--temp-dir", d] + how + ([] if symm else ["-N"]) + [bed, txt, out])
                if code != 0 or exc is not None:
                    R.mismatch("load-of-own-dump-fails", inner, f"code={code} exc={exc!r}")
                    continue
                got, rd = fx.read(out)
                if {k: v["count"] for k, v in got.items()} != fwant:
                    R.mismatch("reimported-cooler!=original", inner, f"got={got} want={fwant}")
                v = h5ref.validate(out)
                if v:
                    R.mismatch("V:" + v[0], inner, f"{v}")
                scratch.rm(out)
    scratch.rm(d)


RECS = [("chr2", 0, "chr2", 3, 1.5, 10), ("chr2", 2, "chr10", 1, 2.5, 20), ("chr10", 3, "chr2", 1, 4.0, 30), ("chr10", 0, "chr10", 0, 0.5, 40),
        ("chr2", 1, "chr2", 2, 8.0, 50), ("chr2", 3, "chr10", 1, 1.0, 60)]


def _layouts(R, unit, tier, only):
    """cload pairs with the 4 positional columns (and 0/1/2 value columns) at every injective assignment into 6 columns"""
    bins = alpha.table_bins(((2, 2), (2, 2)), "chr")
    names = ["chr2", "chr10"]
    order = {"chr2": 0, "chr10": 1}
    d = scratch.sub(f"c16lay{os.getpid()}_{unit['nval']}_{unit['part']}")
    bed = os.path.join(d, "bins.bed")
    with open(bed, "w") as fh:
        for b in bins:
            fh.write("\t".join(str(x) for x in b) + "\n")
    nval = unit["nval"]
    fields = ["chrom1", "pos1", "chrom2", "pos2"] + ["score", "aux"][:nval]
    lays = list(itertools.permutations(range(6), 4 + nval))
    lays = lays[unit["part"]::unit["of"]]
    if nval >= 1 and tier != "thorough":
        lays = lays[::4]
    if nval == 2:
        lays = lays[::4]
    # reference
    pixrec = {}
    for (c1, p1, c2, p2, sc, ax) in RECS:
        a, b = models.ref_bin_of(bins, c1, p1), models.ref_bin_of(bins, c2, p2)
        if (order[c1], p1) > (order[c2], p2):
            a, b = b, a
        pixrec.setdefault((a, b), []).append((sc, ax))
    want_count = {k: len(v) for k, v in pixrec.items()}
    want_score = {k: sum(x[0] for x in v) for k, v in pixrec.items()}
    want_aux = {k: max(x[1] for x in v) for k, v in pixrec.items()}
    R.add("states")
    R.add("traces")
    for q, lay in enumerate(lays):
        inner = {"layout": list(lay), "fields": fields}
        if only is not None and only != inner:
            continue
        R.order = (R.order[0], q)
        mono = list(lay) == sorted(lay)
        R.ev(1, 0 if mono else 1)
        R.add("transitions")
        R.cls("layout:monotone" if mono else "layout:non-monotone")
        txt = os.path.join(d, "in.pairs")
        with open(txt, "w") as fh:
            for rec in RECS:
                row = ["."] * 6
                vals = {"chrom1": rec[0], "pos1": rec[1], "chrom2": rec[2], "pos2": rec[3], "score": rec[4], "aux": rec[5]}
                for fld, col in zip(fields, lay):
                    row[col] = str(vals[fld])
                fh.write("\t".join(row) + "\n")
        out = os.path.join(d, "o.cool")
        args = ["cload", "pairs", "--zero-based", "-c1", lay[0] + 1, "-p1", lay[1] + 1, "-c2", lay[2] + 1, "-p2", lay[3] + 1, "--temp-dir", d]
        if nval >= 1:
            args += ["--field", f"score={lay[4] + 1}:dtype=float"]
        if nval == 2:
            args += ["--field", f"aux={lay[5] + 1}:dtype=int,agg=max"]
        code, so, exc = build.cli(args + [bed, txt, out])
        if code != 0 or exc is not None:
            R.mismatch("cload-fails-on-layout" + ("" if mono else ":non-monotone"), inner, f"code={code} exc={exc!r:.300}")
            continue
        got, rd = fx.read(out)
        bad = {k: v["count"] for k, v in got.items()} != want_count
        if nval >= 1 and not bad:
            bad = "score" not in rd["cols"] or {k: v["score"] for k, v in got.items()} != want_score
        if nval == 2 and not bad:
            bad = "aux" not in rd["cols"] or {k: v["aux"] for k, v in got.items()} != want_aux
        if bad:
            R.mismatch("cload-result-depends-on-column-layout" + ("" if mono else ":non-monotone"), inner, f"got={got} want_count={want_count} want_score={want_score}")
        scratch.rm(out)
    scratch.rm(d)


def _load_layouts(R, only):
    """load -f bg2 / coo with value fields at non-default columns"""
    bins = alpha.table_bins(((2, 2), (2, 2)), "chr")
    d = scratch.sub(f"c16ll{os.getpid()}")
    bed = os.path.join(d, "bins.bed")
    with open(bed, "w") as fh:
        for b in bins:
            fh.write("\t".join(str(x) for x in b) + "\n")
    pixl = [((0, 0), 3, 1.5), ((0, 2), 5, 0.5), ((1, 3), 7, 2.5), ((3, 3), 9, 4.0)]
    R.add("states")
    R.add("traces")
    kk = 0
    for fmt in ("coo", "bg2"):
        base = 2 if fmt == "coo" else 6
        for ccol, scol in itertools.permutations(range(base, base + 3), 2):
            kk += 1
            inner = {"format": fmt, "count_col": ccol, "score_col": scol}
            if only is not None and only != inner:
                continue
            R.order = (R.order[0], kk)
            mono = ccol < scol
            R.ev(1, 0 if mono else 1)
            R.add("transitions")
            R.cls("layout:monotone" if mono else "layout:non-monotone")
            txt = os.path.join(d, "in.txt")
            with open(txt, "w") as fh:
                for (i, j), c, s in pixl:
                    row = ([str(i), str(j)] if fmt == "coo" else [bins[i][0], str(bins[i][1]), str(bins[i][2]), bins[j][0], str(bins[j][1]), str(bins[j][2])]) + ["."] * 3
                    row[ccol] = str(c)
                    row[scol] = str(s)
                    fh.write("\t".join(row) + "\n")
            out = os.path.join(d, "o.cool")
            code, so, exc = build.cli(["load", "-f", fmt, "--field", f"count={ccol + 1}", "--field", f"score={scol + 1}:dtype=float", "--temp-dir", d, bed, txt, out])
            if code != 0 or exc is not None:
                R.mismatch("load-fails-on-layout" + ("" if mono else ":non-monotone"), inner, f"code={code} exc={exc!r:.300}")
                continue
            got, rd = fx.read(out)
            want = {k: {"count": c, "score": s} for k, c, s in pixl}
            if "score" not in rd["cols"] or fx.same_values(got, want, ("count", "score")):
                R.mismatch("load-result-depends-on-column-layout" + ("" if mono else ":non-monotone"), inner, f"got={got} want={want}")
            scratch.rm(out)
            # ... and a plain load with the DEFAULT layout right afterwards (nothing of the previous call's options may stick)
            txt2 = os.path.join(d, "default.txt")
            with open(txt2, "w") as fh:
                for (i, j), c, s_ in pixl:
                    row = ([str(i), str(j)] if fmt == "coo" else [bins[i][0], str(bins[i][1]), str(bins[i][2]), bins[j][0], str(bins[j][1]), str(bins[j][2])]) + [str(c), "777", "888"]
                    fh.write("\t".join(row) + "\n")
            code, so, exc = build.cli(["load", "-f", fmt, "--temp-dir", d, bed, txt2, out])
            if code != 0 or exc is not None:
                R.mismatch("default-load-after-custom-load-fails", inner, f"code={code} exc={exc!r:.300}")
            else:
                got2, _ = fx.read(out)
                if {k: v["count"] for k, v in got2.items()} != {k: c for k, c, _ in pixl}:
                    R.mismatch("default-load-after-custom-load-reads-other-columns", inner, f"got={got2}")
            scratch.rm(out)
    scratch.rm(d)


def units(tier):
    for si in range(len(SPECS)):
        for part in range(8):
            yield {"leg": "dump", "s": si, "part": part}
    # the first cooler once more as a file of format version 2 (no storage-mode attribute: symmetric-upper by default)
    for part in range(0, 8, 2):
        yield {"leg": "dump", "s": 0, "part": part, "legacy": True}
    for si in range(len(SPECS) + len(SPECS_NUM)):
        yield {"leg": "roundtrip", "s": si}
    for part in range(12):
        yield {"leg": "layouts", "nval": 0, "part": part, "of": 12}
    for part in range(12):
        yield {"leg": "layouts", "nval": 1, "part": part, "of": 12}
    if tier == "thorough":
        for part in range(12):
            yield {"leg": "layouts", "nval": 2, "part": part, "of": 12}
    yield {"leg": "load-layouts"}
    for k in range(6):
        yield {"leg": "zoomify-r", "k": k}


def run(unit, R, tier, only=None):
    leg = unit["leg"]
    if leg == "dump":
        _dump(R, unit["s"], tier, only, unit.get("part", 0), unit.get("legacy", False))
    elif leg == "roundtrip":
        _roundtrip(R, unit["s"], only)
    elif leg == "layouts":
        _layouts(R, unit, tier, only)
    elif leg == "load-layouts":
        _load_layouts(R, only)
    elif leg == "zoomify-r":
        from vmc.checks import c09
        c09._cli(R, unit["k"], only)
        R.classes["zoomify-r"] += 1
    else:
        raise ValueError(leg)
