"""C05 — each valid input record is counted once, in the pixel that contains it (E1)."""
from __future__ import annotations

import itertools
import os

import numpy as np
import pandas as pd

from vmc import alpha, build, h5ref, models
from vmc.core import scratch

ID = "C05"
LEVEL = "model_checking"
RULE = ("records leg: every bin table of BT(3,B,{1,2,3}) (one-bp genomes excluded) x EVERY record (chrom1,pos1,chrom2,pos2) with "
        "pos in -1..L+1 and chrom in table+{unknown} x zero/one-based x tril in {reflect,drop,raise,None} x with/without a sided "
        "extra field, through sanitize_records (+aggregate_records); valid records go through as one chunk and are judged row by "
        "row, records that must be refused are submitted one by one; multiset leg: every pair of edge records in every order and "
        "split; pixels leg: sanitize_pixels+validate over every (bin1,bin2) in -1..n+1; loaders leg: cload pairs / load coo / load "
        "bg2 / tabix aggregator / cload tabix on files holding all edge records, plus one file per invalid record. Oracle: linear "
        "scan ref_bin_of after the stated mirroring. Non-trivial: the record is valid and not on the first bin of both anchors, or "
        "must be refused. Distinct by construction.")
EXTRA_LEGS = 'binsizes: every bin size 1..512 (thorough 4096), anchors on the first / middle / last base of 41 bins, zero- and one-based; chromosome columns as categoricals in four category orders; the unlisted chromosome spelled None / NaN and contigs literally called NA / null / NaN in pairs text; the bin table handed over in seven other forms.' + ' --input-copy-status duplex together with -N (square storage: every record counts) for cload pairs and load.'
BOUNDS = {"quick": "records: BT(3,4,W) (678 tables); refusals: full 16 option vectors on tables with <=2 bins, 4 vectors for 3 bins, 1 of 4 (rotating) above; loaders: BTrep(3,4) tables with <= 3 chromosomes + binsizes: every bin size 1..512 x anchors on the first/middle/last base of each of 41 bins, zero- and one-based; chromosome columns also as categoricals in four category orders",
          "thorough": "records: BT(3,5,W); refusals as quick; every valid record also submitted alone on tables with <=4 bins; loaders: BTrep(3,5) + binsizes: every bin size 1..4096 x anchors on the first/middle/last base of each of 41 bins, zero- and one-based; chromosome columns also as categoricals in four category orders"}
ASSUMPTIONS = ["a record with one unlisted chromosome AND an out-of-range position on the other side may be dropped or rejected",
               "the tabix loader is fed upper-triangular, position-sorted input as it requires; for streaming loaders 'rejected' means: "
               "the run fails, or the record is not counted in any pixel",
               "pairix loader not exercised (pypairix not installed)"]
EXPECT_CLASSES = {"*": ["chunk:missing-chromosome-name", "bins-form", "chunk:categorical-chromosomes", "binsizes", "rec:kept", "rec:reflected", "rec:dropped-unknown", "rec:dropped-lower", "rec:refused", "loader:cload-pairs",
                        "loader:load-coo", "loader:load-bg2", "loader:tabix", "loader:tabix-schedule"]}

TRIL = ["reflect", "drop", "raise", None]
UNKNOWN = "zzUnknown"


def _tables(B):
    return [t for t in alpha.bin_tables(3, B) if sum(sum(c) for c in t) > 1]


def units(tier):
    B = 5 if tier == "thorough" else 4
    tabs = _tables(B)
    for lo in range(0, len(tabs), 6):
        yield {"leg": "records", "B": B, "lo": lo, "hi": min(len(tabs), lo + 6)}
    small = [k for k, t in enumerate(alpha.bt_rep(3, 4)) if alpha.table_nbins(t) <= 3]
    for k in small:
        yield {"leg": "multiset", "k": k}
    for n in (1, 2, 3, 4, 5):
        yield {"leg": "pixels", "n": n}
    rep = alpha.bt_rep(3, B)
    for k in range(len(rep)):
        if sum(sum(c) for c in rep[k]) > 1:
            yield {"leg": "loaders", "B": B, "k": k}
    for ti in (0, 1, 2):
        yield {"leg": "tabix-sched", "t": ti}
    # every bin size 1..512 (thorough 4096): anchors on the first and last base of each of 41 bins - the division that assigns a
    # position to its bin must be exact at every multiple of every bin size, not only for the widths 1..3 of the table alphabet
    top = 4096 if tier == "thorough" else 512
    for lo in range(1, top + 1, 32):
        yield {"leg": "binsizes", "lo": lo, "hi": min(top + 1, lo + 32)}


# ---- reference ---------------------------------------------------------------------------------
def expect(bins, order, sizes, rec, one_based, tril):
    """-> ('dropped-unknown',) | ('refused',) | ('either',) | ('dropped-lower',) | ('refused-lower',) | ('kept', b1, b2, swapped)"""
    c1, p1, c2, p2 = rec
    k1, k2 = c1 in sizes, c2 in sizes
    q1, q2 = p1 - one_based, p2 - one_based
    ok1 = k1 and 0 <= q1 < sizes[c1]
    ok2 = k2 and 0 <= q2 < sizes[c2]
    if not k1 or not k2:
        if (k1 and not ok1) or (k2 and not ok2):
            return ("either",)
        return ("dropped-unknown",)
    if not ok1 or not ok2:
        return ("refused",)
    lower = order[c1] > order[c2] or (c1 == c2 and q1 > q2)
    b1, b2 = models.ref_bin_of(bins, c1, q1), models.ref_bin_of(bins, c2, q2)
    if tril is None or not lower:
        return ("kept", b1, b2, False)
    if tril == "reflect":
        return ("kept", b2, b1, True)
    if tril == "drop":
        return ("dropped-lower",)
    return ("refused-lower",)


def _frame(recs, tags=True):
    d = {"chrom1": [r[0] for r in recs], "pos1": np.array([r[1] for r in recs], dtype=np.int64),
         "chrom2": [r[2] for r in recs], "pos2": np.array([r[3] for r in recs], dtype=np.int64)}
    if tags:
        d["strand1"] = [f"s{k}a" for k in range(len(recs))]
        d["strand2"] = [f"s{k}b" for k in range(len(recs))]
    return pd.DataFrame(d)


def _records_table(R, table, flavour, tier, only, tindex=0):
    from cooler.create import aggregate_records, sanitize_records
    bins = alpha.table_bins(table, flavour)
    names = alpha.NAMES[flavour][:len(table)]
    order = {nm: k for k, nm in enumerate(names)}
    sizes = models.ref_chromsizes(bins)
    bdf = build.bins_df(bins)
    anchors = [(c, p) for c in names for p in range(-1, sizes[c] + 2)] + [(UNKNOWN, 0)]
    allrecs = [(a[0], a[1], b[0], b[1]) for a in anchors for b in anchors]
    n = len(bins)
    tname = [list(c) for c in table]
    R.add("states")
    R.add("traces")
    agg = aggregate_records(sort=True, count=True)
    for ob in (0, 1):
        for tril in TRIL:
            for sided in (False, True):
                opt = {"one_based": ob, "tril": tril, "sided": sided}
                try:
                    san = sanitize_records(bdf, schema="pairs", decode_chroms=True, is_one_based=bool(ob), tril_action=tril,
                                           sort=False, validate=True,
                                           sided_fields=("chrom", "pos", "strand") if sided else ("chrom", "pos"))
                except Exception as e:
                    R.mismatch("sanitizer-construction-raises:" + type(e).__name__, {"table": tname, "names": flavour, "opt": opt}, f"{e!s:.200}")
                    continue
                exp = [expect(bins, order, sizes, r, ob, tril) for r in allrecs]
                # -- one chunk with every record that must pass without error
                okidx = [k for k, e in enumerate(exp) if e[0] in ("kept", "dropped-unknown", "dropped-lower")]
                inner = {"table": tname, "names": flavour, "opt": opt, "chunk": "all-valid"}
                if only is None or only == inner:
                    R.c["transitions"] += 1
                    recs = [allrecs[k] for k in okidx]
                    try:
                        out = san(_frame(recs))
                        got = {int(ix): (int(b1), int(b2), s1, s2, c1, c2) for ix, b1, b2, s1, s2, c1, c2 in
                               zip(out.index, out["bin1_id"], out["bin2_id"], out["strand1"], out["strand2"], out["chrom1"], out["chrom2"])}
                        for pos, k in enumerate(okidx):
                            e = exp[k]
                            r = allrecs[k]
                            R.c["evaluations"] += 1
                            if e[0] == "kept":
                                nt = (e[1], e[2]) != (0, 0)
                                R.c["nontrivial"] += nt
                                R.classes["rec:reflected" if e[3] else "rec:kept"] += 1
                                g = got.get(pos)
                                if g is None:
                                    R.mismatch("valid-record-lost", {**inner, "rec": list(r)}, f"want pixel {(e[1], e[2])}")
                                elif (g[0], g[1]) != (e[1], e[2]):
                                    R.mismatch("record-in-wrong-pixel", {**inner, "rec": list(r)}, f"got={g[:2]} want={(e[1], e[2])} bins={bins}")
                                else:
                                    ws = (f"s{pos}b", f"s{pos}a") if (e[3] and sided) else (f"s{pos}a", f"s{pos}b")
                                    wc = (r[2], r[0]) if e[3] else (r[0], r[2])
                                    if (g[2], g[3]) != ws:
                                        R.mismatch("sided-field-not-swapped-with-record", {**inner, "rec": list(r)}, f"got={g[2:4]} want={ws}")
                                    if (g[4], g[5]) != wc:
                                        R.mismatch("chrom-columns-not-swapped-with-record", {**inner, "rec": list(r)}, f"got={g[4:6]} want={wc}")
                            else:
                                R.classes["rec:" + e[0]] += 1
                                if pos in got:
                                    R.mismatch("record-not-dropped:" + e[0], {**inner, "rec": list(r)}, f"got={got[pos][:2]}")
                        # totals through aggregate_records
                        a = agg(out)
                        nkept = sum(1 for k in okidx if exp[k][0] == "kept")
                        if int(a["count"].sum()) != nkept:
                            R.mismatch("total!=retained-records", inner, f"total={int(a['count'].sum())} retained={nkept}")
                        want = models.ref_aggregate((((exp[k][1], exp[k][2]), 1) for k in okidx if exp[k][0] == "kept"))
                        gotp = {(int(x), int(y)): int(c) for x, y, c in zip(a["bin1_id"], a["bin2_id"], a["count"])}
                        if gotp != want:
                            R.mismatch("aggregated-pixels!=ref", inner, f"got={gotp} want={want}")
                        R.outcome((n, len(table), ob, tril, sorted(gotp.items())[:6]))
                    except Exception as ex:
                        R.mismatch("valid-chunk-raises:" + type(ex).__name__, inner, f"{ex!s:.300}")
                # -- the same chunk with chromosomes given as integer ids (decode_chroms=False; -1 = not listed), with and without
                #    unlisted records in the chunk (dropping them copies the id arrays, a chunk without any works on the caller's columns)
                for listed_only in (False, True):
                    innerI = {"table": tname, "names": flavour, "opt": opt,
                              "chunk": "all-valid:integer-chromosome-ids" + (":listed-only" if listed_only else "")}
                    if sided or not (only is None or only == innerI):
                        continue
                    R.c["transitions"] += 1
                    R.c["evaluations"] += 1
                    R.c["nontrivial"] += 1
                    R.classes["chunk:integer-chromosome-ids"] += 1
                    okI = [k for k in okidx if not (listed_only and exp[k][0] == "dropped-unknown")]
                    recs = [allrecs[k] for k in okI]
                    fr = _frame(recs, tags=False)
                    fr["chrom1"] = np.array([order.get(c, -1) for c in fr["chrom1"]], dtype=np.int64)
                    fr["chrom2"] = np.array([order.get(c, -1) for c in fr["chrom2"]], dtype=np.int64)
                    try:
                        sanI = sanitize_records(bdf, schema="pairs", decode_chroms=False, is_one_based=bool(ob), tril_action=tril,
                                                sort=False, validate=True)
                        out = sanI(fr)
                        gotI = {int(ix): (int(b1), int(b2)) for ix, b1, b2 in zip(out.index, out["bin1_id"], out["bin2_id"])}
                        wantI = {pos: (exp[k][1], exp[k][2]) for pos, k in enumerate(okI) if exp[k][0] == "kept"}
                        if gotI != wantI:
                            bad = sorted(set(gotI.items()) ^ set(wantI.items()))[:6]
                            R.mismatch("record-in-wrong-pixel:integer-chromosome-ids", innerI, f"differences (row, pixel)={bad}")
                    except Exception as ex:
                        R.mismatch("valid-chunk-raises:" + type(ex).__name__, innerI, f"{ex!s:.300}")
                # -- the same chunk with the chromosome columns given as pandas categoricals whose category order is NOT the table order
                #    (what astype('category') or a reader with dtype=category produces): names, not codes, identify a chromosome
                for cat in ("sorted-listed", "reversed-listed", "sorted-all", "table-order-plus-unused"):
                    innerC = {"table": tname, "names": flavour, "opt": opt, "chunk": "all-valid:categorical-chromosomes:" + cat}
                    if sided or not (only is None or only == innerC):
                        continue
                    R.c["transitions"] += 1
                    R.c["evaluations"] += 1
                    R.c["nontrivial"] += 1
                    R.classes["chunk:categorical-chromosomes"] += 1
                    okC = [k for k in okidx if not (cat.endswith("-listed") and exp[k][0] == "dropped-unknown")]
                    recs = [allrecs[k] for k in okC]
                    fr = _frame(recs, tags=False)
                    cats = {"sorted-listed": sorted(names), "reversed-listed": list(names)[::-1], "sorted-all": sorted(names + [UNKNOWN]),
                            "table-order-plus-unused": list(names) + ["zz_unused", UNKNOWN]}[cat]
                    fr["chrom1"] = pd.Categorical(fr["chrom1"], categories=cats)
                    fr["chrom2"] = pd.Categorical(fr["chrom2"], categories=cats)
                    try:
                        out = san(fr)
                        gotC = {int(ix): (int(b1), int(b2)) for ix, b1, b2 in zip(out.index, out["bin1_id"], out["bin2_id"])}
                        wantC = {pos: (exp[k][1], exp[k][2]) for pos, k in enumerate(okC) if exp[k][0] == "kept"}
                        if gotC != wantC:
                            bad = sorted(set(gotC.items()) ^ set(wantC.items()))[:6]
                            R.mismatch("record-in-wrong-pixel:categorical-chromosome-columns", innerC, f"categories={cats} differences (row, pixel)={bad}")
                    except Exception as ex:
                        R.mismatch("valid-chunk-raises:" + type(ex).__name__, innerC, f"{ex!s:.300}")
                # -- the same chunk with the unlisted chromosome spelled as a MISSING value (None / NaN in an object column - what a text
                #    reader makes of a contig called NA or null): still a record on an unlisted chromosome, dropped like any other
                for missing in ("None", "NaN"):
                    innerM = {"table": tname, "names": flavour, "opt": opt, "chunk": "all-valid:unlisted-name-is-" + missing}
                    if sided or not (only is None or only == innerM):
                        continue
                    R.c["transitions"] += 1
                    R.c["evaluations"] += 1
                    R.c["nontrivial"] += 1
                    R.classes["chunk:missing-chromosome-name"] += 1
                    recs = [allrecs[k] for k in okidx]
                    fr = _frame(recs, tags=False)
                    mv = None if missing == "None" else float("nan")
                    for col in ("chrom1", "chrom2"):
                        fr[col] = pd.Series([mv if c == UNKNOWN else c for c in fr[col]], dtype=object)
                    try:
                        out = san(fr)
                        gotM = {int(ix): (int(b1), int(b2)) for ix, b1, b2 in zip(out.index, out["bin1_id"], out["bin2_id"])}
                        wantM = {pos: (exp[k][1], exp[k][2]) for pos, k in enumerate(okidx) if exp[k][0] == "kept"}
                        if gotM != wantM:
                            bad = sorted(set(gotM.items()) ^ set(wantM.items()))[:6]
                            R.mismatch("record-with-missing-chromosome-name-counted-or-valid-record-misplaced", innerM, f"differences (row, pixel)={bad}")
                    except Exception:
                        R.classes["chunk:missing-chromosome-name:refused"] += 1     # refusing a chunk that holds a missing name is not judged
                # -- the same chunk against the SAME bin table handed over in another form (row labels that are not 0..n-1, int32
                #    coordinates, chromosome column as plain strings / unordered categorical): the table's content decides, not its form
                for bform in (("offset-labels", "reversed-labels", "string-labels", "repeated-labels", "int32-coordinates", "object-chrom", "unordered-categorical")
                              if (ob, tril, sided) == (0, "reflect", False) else ()):
                    innerB = {"table": tname, "names": flavour, "opt": opt, "chunk": "all-valid", "bins_form": bform}
                    if not (only is None or only == innerB):
                        continue
                    R.c["transitions"] += 1
                    R.c["evaluations"] += 1
                    R.c["nontrivial"] += 1
                    R.classes["bins-form"] += 1
                    b2 = {"offset-labels": lambda: bdf.set_axis(list(range(10, 10 + n))), "reversed-labels": lambda: bdf.set_axis(list(range(n - 1, -1, -1))),
                          "string-labels": lambda: bdf.set_axis([f"r{q}" for q in range(n)]), "repeated-labels": lambda: bdf.set_axis([0] * n),
                          "int32-coordinates": lambda: bdf.astype({"start": np.int32, "end": np.int32}),
                          "object-chrom": lambda: bdf.assign(chrom=bdf["chrom"].astype(str).astype(object)),
                          "unordered-categorical": lambda: bdf.assign(chrom=pd.Categorical(bdf["chrom"].astype(str), categories=names))}[bform]()
                    recs = [allrecs[k] for k in okidx]
                    try:
                        sanB = sanitize_records(b2, schema="pairs", decode_chroms=True, is_one_based=bool(ob), tril_action=tril, sort=False, validate=True)
                        out = sanB(_frame(recs, tags=False))
                        gotB = {int(ix): (int(b1), int(bb)) for ix, b1, bb in zip(out.index, out["bin1_id"], out["bin2_id"])}
                        wantB = {pos: (exp[k][1], exp[k][2]) for pos, k in enumerate(okidx) if exp[k][0] == "kept"}
                        if gotB != wantB:
                            bad = sorted(set(gotB.items()) ^ set(wantB.items()))[:6]
                            R.mismatch("record-in-wrong-pixel:bin-table-form", innerB, f"differences (row, pixel)={bad}")
                    except Exception as ex:
                        R.mismatch("valid-chunk-raises:" + type(ex).__name__, innerB, f"{ex!s:.300}")
                # -- the same chunk under other row labels (all equal, reversed); records told apart by their first position column
                for lab in ("repeated", "reversed"):
                    innerL = {"table": tname, "names": flavour, "opt": opt, "chunk": "all-valid", "labels": lab}
                    if sided or not (only is None or only == innerL):
                        continue
                    R.c["transitions"] += 1
                    R.c["evaluations"] += 1
                    R.c["nontrivial"] += 1
                    R.classes["chunk:labels-" + lab] += 1
                    recs = [allrecs[k] for k in okidx]
                    fr = _frame(recs, tags=False)
                    fr["tag"] = np.arange(len(fr))
                    fr = fr.set_axis([4] * len(fr)) if lab == "repeated" else fr.set_axis(list(range(len(fr), 0, -1)))
                    try:
                        out = san(fr)
                        gotL = sorted((int(t), int(b1), int(b2)) for t, b1, b2 in zip(out["tag"], out["bin1_id"], out["bin2_id"]))
                        wantL = sorted((pos, exp[k][1], exp[k][2]) for pos, k in enumerate(okidx) if exp[k][0] == "kept")
                        if gotL != wantL:
                            R.mismatch("records-lost-or-misplaced-under-other-row-labels", innerL, f"got {len(gotL)} records, want {len(wantL)}; first differences {sorted(set(gotL) ^ set(wantL))[:6]}")
                    except Exception as ex:
                        R.mismatch("valid-chunk-raises:" + type(ex).__name__, innerL, f"{ex!s:.300}")
                # -- every valid record alone (thorough, small tables)
                if tier == "thorough" and n <= 4 and not sided:
                    for k in okidx:
                        if exp[k][0] != "kept":
                            continue
                        inner1 = {"table": tname, "names": flavour, "opt": opt, "single": list(allrecs[k])}
                        if only is not None and only != inner1:
                            continue
                        R.c["evaluations"] += 1
                        R.c["transitions"] += 1
                        try:
                            out = san(_frame([allrecs[k]]))
                            g = (int(out["bin1_id"].iloc[0]), int(out["bin2_id"].iloc[0])) if len(out) == 1 else None
                            if g != (exp[k][1], exp[k][2]):
                                R.mismatch("record-in-wrong-pixel", inner1, f"got={g} want={exp[k][1:3]}")
                        except Exception as ex:
                            R.mismatch("valid-record-raises:" + type(ex).__name__, inner1, f"{ex!s:.300}")
                # -- records that must be refused, one by one
                four = ((0, "reflect", False), (1, "reflect", True), (0, None, False), (1, "drop", False))
                if n == 3 and (ob, tril, sided) not in four:
                    continue
                if n >= 4 and (ob, tril, sided) != four[tindex % 4]:
                    continue
                val = [a for a in anchors if a[0] != UNKNOWN and 0 <= a[1] - ob < sizes[a[0]]]
                inv = [a for a in anchors if a[0] != UNKNOWN and not (0 <= a[1] - ob < sizes[a[0]])]
                partners = [val[0], val[-1]]
                todo = [(a, b) for a in inv for b in partners] + [(b, a) for a in inv for b in partners] + [(a, a) for a in inv]
                if n <= 2:
                    todo += [(a, b) for a in inv for b in inv if a != b]
                if tril == "raise" and n <= 3:
                    todo += [((r[0], r[1]), (r[2], r[3])) for r, e in zip(allrecs, exp) if e[0] == "refused-lower"]
                for a, b in todo:
                    r = (a[0], a[1], b[0], b[1])
                    e = expect(bins, order, sizes, r, ob, tril)
                    inner2 = {"table": tname, "names": flavour, "opt": opt, "refuse": list(r)}
                    if only is not None and only != inner2:
                        continue
                    R.c["evaluations"] += 1
                    R.c["nontrivial"] += 1
                    R.c["transitions"] += 1
                    R.classes["rec:refused"] += 1
                    try:
                        out = san(_frame([r]))
                        g = [(int(x), int(y)) for x, y in zip(out["bin1_id"], out["bin2_id"])]
                        if not g and e[0] == "refused":
                            continue    # silently dropped (tril 'drop' of a lower record): not assigned anywhere
                        R.mismatch("out-of-range-record-accepted" if e[0] == "refused" else "lower-record-accepted-under-raise",
                                   inner2, f"assigned to {g} sizes={sizes} bins={bins}")
                    except Exception:
                        pass
                # one chunk holding all lower records must raise under 'raise'
                if tril == "raise":
                    low = [allrecs[k] for k, e in enumerate(exp) if e[0] == "refused-lower"]
                    if low:
                        inner3 = {"table": tname, "names": flavour, "opt": opt, "chunk": "all-lower"}
                        if only is None or only == inner3:
                            R.c["transitions"] += 1
                            try:
                                san(_frame(low))
                                R.mismatch("lower-records-accepted-under-raise", inner3, "")
                            except Exception:
                                pass


# ---- multisets: pairs of edge records in every order and split ---------------------------------
def _edge_anchors(bins, names):
    out = []
    for c in names:
        pts = set()
        for (cc, s, e) in bins:
            if cc == c:
                pts |= {s, e - 1}
        out += [(c, p) for p in sorted(pts)]
    return out


def _multiset(R, k, only):
    from cooler.create import aggregate_records, sanitize_records
    table = alpha.bt_rep(3, 4)[k]
    bins = alpha.table_bins(table, "chr")
    names = alpha.NAMES["chr"][:len(table)]
    order = {nm: q for q, nm in enumerate(names)}
    sizes = models.ref_chromsizes(bins)
    bdf = build.bins_df(bins)
    E = _edge_anchors(bins, names)
    recs = [(a[0], a[1], b[0], b[1]) for a in E for b in E]
    R.add("states")
    R.add("traces")
    kk = 0
    for tril in ("reflect", None):
        san = sanitize_records(bdf, schema="pairs", tril_action=tril, sort=True)
        agg = aggregate_records(sort=True, count=True)
        for r1, r2 in itertools.combinations_with_replacement(recs, 2):
            kk += 1
            inner = {"table": [list(c) for c in table], "tril": tril, "recs": [list(r1), list(r2)]}
            if only is not None and only != inner:
                continue
            R.order = (R.order[0], kk)
            want = models.ref_aggregate(((e[1], e[2]), 1) for e in (expect(bins, order, sizes, r, 0, tril) for r in (r1, r2)) if e[0] == "kept")
            R.ev(1, 1)
            R.add("transitions", 3)
            R.cls("multiset")
            try:
                obs = []
                for chunks in ([[r1, r2]], [[r2, r1]], [[r1], [r2]]):
                    acc = {}
                    for ch in chunks:
                        a = agg(san(_frame(ch, tags=False)))
                        for x, y, c in zip(a["bin1_id"], a["bin2_id"], a["count"]):
                            acc[(int(x), int(y))] = acc.get((int(x), int(y)), 0) + int(c)
                    obs.append(acc)
                if any(o != want for o in obs):
                    R.mismatch("outcome-depends-on-order-or-split", inner, f"got={obs} want={want}")
            except Exception as ex:
                R.mismatch("raises:" + type(ex).__name__, inner, f"{ex!s:.300}")


# ---- pre-binned records --------------------------------------------------------------------------
def _pixels(R, n, only):
    from cooler.create import sanitize_pixels
    from cooler.create._ingest import validate_pixels
    table = ((2,) * ((n + 1) // 2),) + (((2,) * (n - (n + 1) // 2),) if n > 1 else ())
    bins = alpha.table_bins(table, "abc")
    bdf = build.bins_df(bins)
    ids = list(range(-1, n + 2))
    allp = [(a, b) for a in ids for b in ids]
    R.add("states")
    R.add("traces")
    kk = 0
    for ob in (0, 1):
        for tril in TRIL:
            for sided in (False, True):
                opt = {"one_based": ob, "tril": tril, "sided": sided}
                san = sanitize_pixels(bdf, is_one_based=bool(ob), tril_action=tril, sort=False,
                                      sided_fields=("tag",) if sided else ())
                val = validate_pixels(n, True, tril is not None, False, False)

                def exp(p):
                    a, b = p[0] - ob, p[1] - ob
                    if not (0 <= a < n and 0 <= b < n):
                        return ("refused",)
                    if a > b and tril is not None:
                        return {"reflect": ("kept", b, a, True), "drop": ("dropped-lower",), "raise": ("refused-lower",)}[tril]
                    return ("kept", a, b, False)

                def frame(ps):
                    return pd.DataFrame({"bin1_id": np.array([p[0] for p in ps], dtype=np.int64),
                                         "bin2_id": np.array([p[1] for p in ps], dtype=np.int64),
                                         "count": np.arange(1, len(ps) + 1),
                                         "tag1": [f"t{q}a" for q in range(len(ps))], "tag2": [f"t{q}b" for q in range(len(ps))]})

                ok = [p for p in allp if exp(p)[0] in ("kept", "dropped-lower")]
                kk += 1
                inner = {"n": n, "opt": opt, "chunk": "all-valid"}
                if only is None or only == inner:
                    R.order = (R.order[0], kk)
                    R.add("transitions")
                    try:
                        out = val(san(frame(ok)))
                        got = {int(ix): (int(a), int(b), t1, t2) for ix, a, b, t1, t2 in zip(out.index, out["bin1_id"], out["bin2_id"], out["tag1"], out["tag2"])}
                        for q, p in enumerate(ok):
                            e = exp(p)
                            R.ev(1, 1 if e[0] == "kept" and (e[1], e[2]) != (0, 0) else 0)
                            R.cls("pix:" + e[0])
                            if e[0] == "kept":
                                wt = (f"t{q}b", f"t{q}a") if (e[3] and sided) else (f"t{q}a", f"t{q}b")
                                if q not in got or got[q][:2] != (e[1], e[2]):
                                    R.mismatch("pixel-record-in-wrong-pixel", {**inner, "pix": list(p)}, f"got={got.get(q)} want={e[1:3]}")
                                elif got[q][2:] != wt:
                                    R.mismatch("sided-field-not-swapped-with-pixel", {**inner, "pix": list(p)}, f"got={got[q][2:]} want={wt}")
                            elif q in got:
                                R.mismatch("lower-pixel-not-dropped", {**inner, "pix": list(p)}, f"{got[q]}")
                    except Exception as ex:
                        R.mismatch("valid-chunk-raises:" + type(ex).__name__, inner, f"{ex!s:.300}")
                # the same chunk under other ROW LABELS (all equal - a concat without ignore_index -, reversed): labels are the caller's
                # business; the records are told apart by their count value
                for lab in ("repeated", "reversed"):
                    innerL = {"n": n, "opt": opt, "chunk": "all-valid", "labels": lab}
                    if not (only is None or only == innerL) or sided:
                        continue
                    R.add("transitions")
                    R.ev(1, 1)
                    R.cls("pix:labels-" + lab)
                    try:
                        fr = frame(ok)
                        fr = fr.set_axis([4] * len(fr)) if lab == "repeated" else fr.set_axis(list(range(len(fr), 0, -1)))
                        out = val(san(fr))
                        gotL = sorted((int(c), int(a), int(b)) for c, a, b in zip(out["count"], out["bin1_id"], out["bin2_id"]))
                        wantL = sorted((q + 1, exp(p)[1], exp(p)[2]) for q, p in enumerate(ok) if exp(p)[0] == "kept")
                        if gotL != wantL:
                            R.mismatch("pixel-records-lost-or-misplaced-under-other-row-labels", innerL, f"got {len(gotL)} records, want {len(wantL)}; first differences {sorted(set(gotL) ^ set(wantL))[:6]}")
                    except Exception as ex:
                        R.mismatch("valid-chunk-raises:" + type(ex).__name__, innerL, f"{ex!s:.300}")
                for p in allp:
                    e = exp(p)
                    if e[0] not in ("refused", "refused-lower"):
                        continue
                    kk += 1
                    inner = {"n": n, "opt": opt, "refuse": list(p)}
                    if only is not None and only != inner:
                        continue
                    R.order = (R.order[0], kk)
                    R.ev(1, 1)
                    R.add("transitions")
                    R.cls("pix:refused")
                    try:
                        out = val(san(frame([p])))
                        if len(out):   # silently dropping it (tril 'drop') does not assign it anywhere
                            R.mismatch("invalid-pixel-accepted", inner, f"got={out[['bin1_id', 'bin2_id']].values.tolist()}")
                    except Exception:
                        pass


# ---- loaders (CLI and tabix) ------------------------------------------------------------------------
def _write_lines(path, rows, header=(), interior=None):
    """header: comment lines written first; interior: a comment line written after the second record"""
    with open(path, "w") as f:
        for h in header:
            f.write(h + "\n")
        for q, r in enumerate(rows):
            f.write("\t".join(str(x) for x in r) + "\n")
            if interior is not None and q == 1:
                f.write(interior + "\n")


def _read_pixels(path):
    rd = h5ref.read_collection(path)
    return {k: rows[0]["count"] for k, rows in rd["pixrows"].items()}, rd


def _loaders(R, B, k, only):
    import cooler
    from cooler.create import TabixAggregator
    import pysam
    table = alpha.bt_rep(3, B)[k]
    flavour = "num" if k % 3 == 1 else "chr"       # every third table: chromosome names that are all digits
    bins = alpha.table_bins(table, flavour)
    names = alpha.NAMES[flavour][:len(table)]
    order = {nm: q for q, nm in enumerate(names)}
    sizes = models.ref_chromsizes(bins)
    n = len(bins)
    d = scratch.sub(f"c05_{os.getpid()}_{k}")
    bed = os.path.join(d, "bins.bed")
    _write_lines(bed, bins)
    E = _edge_anchors(bins, names)
    recs = [(a[0], a[1], b[0], b[1]) for a in E for b in E] + [(UNKNOWN, 0, names[0], 0), (names[0], 0, UNKNOWN, 5)]
    tname = [list(c) for c in table]
    R.add("states")
    R.add("traces")
    kk = 0

    def judge(loader, inner, out, recs0, ob, tril, symm=True):
        """compare the cooler written by a loader with the reference aggregation of recs0"""
        want = models.ref_aggregate(((e[1], e[2]), 1) for e in (expect(bins, order, sizes, r, ob, tril) for r in recs0) if e[0] == "kept")
        try:
            got, rd = _read_pixels(out)
        except Exception as ex:
            R.mismatch(loader + ":unreadable-output", inner, f"{ex!s:.200}")
            return
        if got != want:
            R.mismatch(loader + ":pixels!=ref", inner, f"got={sorted(got.items())} want={sorted(want.items())} bins={bins}")
        if rd["attrs"].get("sum") != sum(want.values()):
            R.mismatch(loader + ":total!=retained-records", inner, f"sum={rd['attrs'].get('sum')} want={sum(want.values())}")
        v = h5ref.validate(out)
        if v:
            R.mismatch(loader + ":V", inner, f"{v}")

    # ---- cload pairs ----
    for ob in (0, 1):
        pf0 = os.path.join(d, f"all_{ob}.pairs")
        # interleaved: records on unlisted contigs that are literally called NA / null / NaN (a text reader turns these tokens into
        # missing values); like every record on an unlisted chromosome they are dropped, whatever follows or precedes them
        lines0 = []
        for q, r in enumerate(recs):
            if q % 4 == 0:
                lines0.append(("m%d" % q, ("NA", "null", "NaN")[q // 4 % 3], 1 + ob, r[2], r[3] + ob, "+", "-"))
                lines0.append(("n%d" % q, r[0], r[1] + ob, ("NA", "null", "NaN")[q // 4 % 3], 1 + ob, "+", "-"))
            lines0.append(("r%d" % q, r[0], r[1] + ob, r[2], r[3] + ob, "+", "-"))
        lines0.append(("mz", "NA", 1 + ob, "NA", 2 + ob, "+", "-"))
        _write_lines(pf0, lines0)
        # the same records below a .pairs header (lines starting with '#', which every pairs file written by pairtools has)
        pfh = os.path.join(d, f"allh_{ob}.pairs")
        _write_lines(pfh, [("r%d" % q, r[0], r[1] + ob, r[2], r[3] + ob, "+", "-") for q, r in enumerate(recs)],
                     header=("## pairs format v1.0", "#chromsize: %s 1" % names[0], "#columns: readID chr1 pos1 chr2 pos2 strand1 strand2"))
        # ("duplex", square storage): the copy status is documented for symmetric-upper storage only - with -N every record counts
        for status, symm in (("unique", True), ("duplex", True), ("unique", False), ("duplex", False)):
            for cs in (5, 10 ** 6):
                kk += 1
                inner = {"table": tname, "loader": "cload-pairs", "one_based": ob, "status": status, "symm": symm, "chunksize": cs}
                if only is not None and only != inner:
                    continue
                R.order = (R.order[0], kk)
                R.ev(1, 1)
                R.add("transitions")
                R.cls("loader:cload-pairs")
                out = os.path.join(d, f"o{kk}.cool")
                pf = pfh if (cs == 5) == symm else pf0
                if pf is pfh:
                    R.cls("input-with-header-lines")
                args = ["cload", "pairs", "-c1", "2", "-p1", "3", "-c2", "4", "-p2", "5", "--chunksize", cs,
                        "--input-copy-status", status, "--temp-dir", d] + (["--zero-based"] if not ob else []) + ([] if symm else ["-N"]) + [bed, pf, out]
                code, so, exc = build.cli(args)
                if code != 0 or exc is not None:
                    R.mismatch("cload-pairs:fails-on-valid-input", inner, f"code={code} exc={exc!r}")
                    continue
                tril = None if not symm else ("reflect" if status == "unique" else "drop")
                judge("cload-pairs", inner, out, [(r[0], r[1], r[2], r[3]) for r in recs], 0, tril)
                scratch.rm(out)
        # one invalid record appended: must fail or not be counted
        inv = []
        for c in names:
            for p in (-1, sizes[c], sizes[c] + 1):
                inv.append((c, p))
        v0 = E[0]
        for a in inv:
            for side in (0, 1):
                kk += 1
                r = (a[0], a[1], v0[0], v0[1]) if side == 0 else (v0[0], v0[1], a[0], a[1])
                inner = {"table": tname, "loader": "cload-pairs", "one_based": ob, "invalid": list(r)}
                if only is not None and only != inner:
                    continue
                R.order = (R.order[0], kk)
                R.ev(1, 1)
                R.add("transitions")
                R.cls("loader:cload-pairs-invalid")
                pf2 = os.path.join(d, f"inv{kk}.pairs")
                base = recs[:len(E)]
                _write_lines(pf2, [("r", x[0], x[1] + ob, x[2], x[3] + ob) for x in base + [r]])
                out = os.path.join(d, f"o{kk}.cool")
                code, so, exc = build.cli(["cload", "pairs", "-c1", "2", "-p1", "3", "-c2", "4", "-p2", "5", "--temp-dir", d]
                                          + (["--zero-based"] if not ob else []) + [bed, pf2, out])
                if code == 0 and exc is None:
                    want = models.ref_aggregate(((e[1], e[2]), 1) for e in (expect(bins, order, sizes, x, 0, "reflect") for x in base) if e[0] == "kept")
                    got, _ = _read_pixels(out)
                    if got != want:
                        R.mismatch("cload-pairs:out-of-range-record-counted", inner, f"got={sorted(got.items())} want={sorted(want.items())} sizes={sizes}")
                scratch.rm(out, pf2)

    # ---- load coo / bg2 ----  (pre-binned: one record per pixel of the full grid, value = distinct)
    for fmt in ("coo", "bg2"):
        for ob in (0, 1):
            for status, symm in (("unique", True), ("duplex", True), ("unique", False), ("duplex", False)):
                for cs in (3, 10 ** 6):
                    kk += 1
                    inner = {"table": tname, "loader": "load-" + fmt, "one_based": ob, "status": status, "symm": symm, "chunksize": cs}
                    if only is not None and only != inner:
                        continue
                    R.order = (R.order[0], kk)
                    R.ev(1, 1)
                    R.add("transitions")
                    R.cls("loader:load-" + fmt)
                    if status == "duplex" or not symm:
                        cellsrc = [(i, j) for i in range(n) for j in range(n)]
                    elif symm:
                        cellsrc = [(i, j) if (i + j) % 2 == 0 else (j, i) for i in range(n) for j in range(i, n)]  # mixed orientation
                    else:
                        cellsrc = [(i, j) for i in range(n) for j in range(n)]
                    val = {c: alpha.value(n, min(c), max(c)) if symm else alpha.value(n, c[0], c[1]) for c in cellsrc}
                    pf = os.path.join(d, f"l{kk}.{fmt}")
                    # comment lines (default '#', or --comment-char) at the top and between records are not records
                    cc = None if cs != 3 else ("#" if not ob else "%")
                    cm = {} if cc is None else {"header": (cc + " a header", cc + "another\tone\twith\ttabs\t1\t2\t3"), "interior": cc + "0\t0\t1000\t0\t0\t0\t1000"}
                    if cc:
                        R.cls("input-with-comment-lines")
                    if fmt == "coo":
                        _write_lines(pf, [(i + ob, j + ob, val[(i, j)]) for (i, j) in cellsrc], **cm)
                    else:
                        _write_lines(pf, [(bins[i][0], bins[i][1] + ob, bins[i][2], bins[j][0], bins[j][1] + ob, bins[j][2], val[(i, j)]) for (i, j) in cellsrc], **cm)
                    out = os.path.join(d, f"o{kk}.cool")
                    args = ["load", "-f", fmt, "--chunksize", cs, "--input-copy-status", status, "--temp-dir", d] \
                        + (["--comment-char", cc] if cc == "%" else []) \
                        + (["--one-based"] if ob else []) + ([] if symm else ["-N"]) + [bed, pf, out]
                    code, so, exc = build.cli(args)
                    if code != 0 or exc is not None:
                        R.mismatch(f"load-{fmt}:fails-on-valid-input", inner, f"code={code} exc={exc!r}")
                        continue
                    if symm and status == "unique":
                        want = {(min(c), max(c)): v for c, v in val.items()}
                    elif symm:
                        want = {c: v for c, v in val.items() if c[0] <= c[1]}
                    else:
                        want = dict(val)
                    try:
                        got, rd = _read_pixels(out)
                        if got != want:
                            R.mismatch(f"load-{fmt}:pixels!=ref", inner, f"got={sorted(got.items())} want={sorted(want.items())}")
                        v = h5ref.validate(out)
                        if v:
                            R.mismatch(f"load-{fmt}:V", inner, f"{v}")
                    except Exception as ex:
                        R.mismatch(f"load-{fmt}:unreadable-output", inner, f"{ex!s:.200}")
                    scratch.rm(out, pf)
        # invalid pre-binned record
        for bad in ([(-1, 0), (0, n), (n, n), (0, -1)] if fmt == "coo" else [("pos", names[0], sizes[names[0]]), ("pos", names[-1], sizes[names[-1]] + 1), ("pos", names[0], -1)]):
            for side in (0, 1):
                kk += 1
                inner = {"table": tname, "loader": "load-" + fmt, "invalid": list(bad), "side": side}
                if only is not None and only != inner:
                    continue
                R.order = (R.order[0], kk)
                R.ev(1, 1)
                R.add("transitions")
                R.cls("loader:load-invalid")
                pf = os.path.join(d, f"li{kk}.{fmt}")
                if fmt == "coo":
                    rows = [(0, 0, 7), tuple(bad) + (9,) if side == 0 else (bad[1], bad[0], 9)]
                else:
                    b0 = bins[0]
                    badrow = (bad[1], bad[2], bad[2] + 1)
                    rows = [(b0[0], b0[1], b0[2], b0[0], b0[1], b0[2], 7),
                            (badrow + (b0[0], b0[1], b0[2]) if side == 0 else (b0[0], b0[1], b0[2]) + badrow) + (9,)]
                _write_lines(pf, rows)
                out = os.path.join(d, f"o{kk}.cool")
                code, so, exc = build.cli(["load", "-f", fmt, "--temp-dir", d, bed, pf, out])
                if code == 0 and exc is None:
                    got, _ = _read_pixels(out)
                    if got != {(0, 0): 7}:
                        R.mismatch(f"load-{fmt}:out-of-range-record-counted", inner, f"got={sorted(got.items())} sizes={sizes} n={n}")
                scratch.rm(out, pf)

    # ---- tabix ----
    up = [r for r in recs if r[0] in order and r[2] in order and (order[r[0]], r[1]) <= (order[r[2]], r[3])]
    up.sort(key=lambda r: (order[r[0]], r[1], order[r[2]], r[3]))
    bdf = build.bins_df(bins)
    cs_series = pd.Series([sizes[c] for c in names], index=names)
    for ob in (0, 1):
        kk += 1
        inner = {"table": tname, "loader": "tabix", "one_based": ob}
        if only is None or only == inner:
            R.order = (R.order[0], kk)
            R.ev(1, 1)
            R.add("transitions", 2)
            R.cls("loader:tabix")
            txt = os.path.join(d, f"t{ob}.txt")
            # runs of consecutive records whose SECOND chromosome is unlisted are interleaved (same chrom1/pos1, so the file stays
            # position-sorted): before the first listed record, between listed records and at the end - they must all be dropped
            rows = []
            for qi, r in enumerate(up):
                if qi % 3 == 0:
                    rows += [(r[0], r[1] + ob, "+", UNKNOWN, 3, "-"), (r[0], r[1] + ob, "+", UNKNOWN + "2", 1, "-"), (r[0], r[1] + ob, "+", UNKNOWN, 900, "-")]
                rows.append((r[0], r[1] + ob, "+", r[2], r[3] + ob, "-"))
            rows += [(names[-1], sizes[names[-1]] - 1 + ob, "+", UNKNOWN, 3, "-"), (names[-1], sizes[names[-1]] - 1 + ob, "+", UNKNOWN, 4, "-")]
            _write_lines(txt, rows)
            gz = txt + ".gz"
            try:
                pysam.tabix_compress(txt, gz, force=True)
                pysam.tabix_index(gz, seq_col=0, start_col=1, end_col=1, zerobased=not ob, force=True)
                for nchunks in (1, 3):
                    it = TabixAggregator(gz, cs_series, bdf, n_chunks=nchunks, is_one_based=bool(ob), C2=3, P2=4)
                    out = os.path.join(d, f"tab{kk}_{nchunks}.cool")
                    cooler.create_cooler(out, bdf, it, ordered=True)
                    judge("tabix", {**inner, "n_chunks": nchunks}, out, up, 0, None)
                    scratch.rm(out)
                out = os.path.join(d, f"tabcli{kk}.cool")
                code, so, exc = build.cli(["cload", "tabix", "-c2", "4", "-p2", "5", "--nproc", "1"] + (["--zero-based"] if not ob else []) + [bed, gz, out])
                if code != 0 or exc is not None:
                    R.mismatch("cload-tabix:fails-on-valid-input", inner, f"code={code} exc={exc!r}")
                else:
                    judge("cload-tabix", inner, out, up, 0, None)
            except Exception as ex:
                R.mismatch("tabix:raises:" + type(ex).__name__, inner, f"{ex!s:.300}")
        # invalid second anchor
        for c in names:
            for p in (sizes[c], sizes[c] + 1):
                kk += 1
                inner = {"table": tname, "loader": "tabix", "one_based": ob, "invalid_anchor2": [c, p]}
                if only is not None and only != inner:
                    continue
                if order[c] < order[names[0]]:
                    continue
                R.order = (R.order[0], kk)
                R.ev(1, 1)
                R.add("transitions")
                R.cls("loader:tabix-invalid")
                txt = os.path.join(d, f"ti{kk}.txt")
                base = [r for r in up if r[0] == names[0]][:2]
                _write_lines(txt, [(r[0], r[1] + ob, "+", r[2], r[3] + ob, "-") for r in base] + [(names[0], 0 + ob, "+", c, p + ob, "-")])
                gz = txt + ".gz"
                try:
                    pysam.tabix_compress(txt, gz, force=True)
                    pysam.tabix_index(gz, seq_col=0, start_col=1, end_col=1, zerobased=not ob, force=True)
                    out = os.path.join(d, f"tabi{kk}.cool")
                    try:
                        it = TabixAggregator(gz, cs_series, bdf, n_chunks=1, is_one_based=bool(ob), C2=3, P2=4)
                        cooler.create_cooler(out, bdf, it, ordered=True)
                    except Exception:
                        continue
                    want = models.ref_aggregate(((e[1], e[2]), 1) for e in (expect(bins, order, sizes, x, 0, None) for x in base) if e[0] == "kept")
                    got, _ = _read_pixels(out)
                    if got != want:
                        R.mismatch("tabix:out-of-range-second-anchor-counted", inner, f"got={sorted(got.items())} want={sorted(want.items())} sizes={sizes}")
                except Exception as ex:
                    R.mismatch("tabix:raises:" + type(ex).__name__, inner, f"{ex!s:.300}")
    scratch.rm(d)
    R.sample({"leg": "loaders", "table": tname, "records": [list(r) for r in recs[:5]], "n_records": len(recs)})


def _tabix_sched(R, ti, tier, only):
    """`cload tabix --nproc 3 --max-split k`: the pool of cooler.cli.cload is replaced by VirtualPool and every execution order /
    laziness of the chunk map is explored (deviation bound 1, thorough 2): the cooler must not depend on it"""
    import cooler.cli.cload as CL
    import pysam
    from vmc.core.rec import HarnessError
    from vmc.seams import sched
    if not hasattr(CL, "Pool"):
        raise HarnessError("seam missing: cooler.cli.cload.Pool")
    table = [((2, 2, 2), (2, 2)), ((1, 3, 2), (2, 1)), ((2, 2), (2,), (2, 2))][ti]
    bins = alpha.table_bins(table, "chr")
    names = alpha.NAMES["chr"][:len(table)]
    order = {nm: q for q, nm in enumerate(names)}
    sizes = models.ref_chromsizes(bins)
    d = scratch.sub(f"c05ts_{os.getpid()}_{ti}")
    bed = os.path.join(d, "bins.bed")
    _write_lines(bed, bins)
    E = _edge_anchors(bins, names)
    up = [(a[0], a[1], b[0], b[1]) for a in E for b in E if (order[a[0]], a[1]) <= (order[b[0]], b[1])]
    up.sort(key=lambda r: (order[r[0]], r[1], order[r[2]], r[3]))
    txt = os.path.join(d, "t.txt")
    _write_lines(txt, [(r[0], r[1], "+", r[2], r[3], "-") for r in up])
    gz = txt + ".gz"
    pysam.tabix_compress(txt, gz, force=True)
    pysam.tabix_index(gz, seq_col=0, start_col=1, end_col=1, zerobased=True, force=True)
    want = models.ref_aggregate(((models.ref_bin_of(bins, r[0], r[1]), models.ref_bin_of(bins, r[2], r[3])), 1) for r in up)
    R.add("states")
    R.add("traces")
    bound = 2 if tier == "thorough" else 1
    saved = CL.Pool
    kk = 0
    try:
        for split in (2, 4):
            def run(ch):
                sched.VirtualPool.choices = ch
                sched.VirtualPool.mon = None
                CL.Pool = sched.VirtualPool
                out = scratch.fresh()
                try:
                    code, so, exc = build.cli(["cload", "tabix", "--zero-based", "-c2", 4, "-p2", 5, "--nproc", 3, "--max-split", split, bed, gz, out])
                finally:
                    CL.Pool = saved
                    sched.VirtualPool.choices = None
                return out, code, exc
            for ch, (out, code, exc) in sched.explore(run, bound):
                kk += 1
                choices = [c for (_, c, _) in ch.trace]
                inner = {"max_split": split, "choices": choices}
                try:
                    if only is not None and only != inner:
                        continue
                    R.order = (R.order[0], kk)
                    R.ev(1, 1 if any(choices) else 0)
                    R.add("transitions")
                    R.add("schedules")
                    R.cls("loader:tabix-schedule")
                    if code != 0 or exc is not None:
                        R.mismatch("cload-tabix:fails-under-schedule", inner, f"code={code} exc={exc!r:.200}")
                        continue
                    got, rd = _read_pixels(out)
                    if got != want:
                        R.mismatch("cload-tabix:result-depends-on-schedule", inner, f"got={sorted(got.items())[:8]} want={sorted(want.items())[:8]}")
                    v = h5ref.validate(out)
                    if v:
                        R.mismatch("cload-tabix:V-under-schedule", inner, f"{v}")
                finally:
                    scratch.rm(out)
    finally:
        CL.Pool = saved
        scratch.rm(d)


def _binsizes(R, unit, only):
    from cooler.create import aggregate_records, sanitize_pixels, sanitize_records
    R.add("states")
    R.add("traces")
    for b in range(unit["lo"], unit["hi"]):
        inner = {"binsize": b}
        if only is not None and only != inner:
            continue
        n1 = 41
        bins = [("chr2", i * b, (i + 1) * b if i < n1 - 1 else (i + 1) * b - b // 2) for i in range(n1)] + [("chr10", i * b, (i + 1) * b) for i in range(3)]
        sizes = models.ref_chromsizes(bins)
        bdf = build.bins_df(bins)
        pos = sorted({p for (c, s0, e0) in bins if c == "chr2" for p in (s0, e0 - 1, (s0 + e0) // 2)})
        want1 = [min(p // b, n1 - 1) for p in pos]                 # integer arithmetic: the bin containing p
        recs = [("chr2", p, "chr10", (k * b) % sizes["chr10"]) for k, p in enumerate(pos)] + [("chr2", 0, "chr2", p) for p in pos]
        want = [(w, n1 + ((k * b) % sizes["chr10"]) // b) for k, w in enumerate(want1)] + [(0, w) for w in want1]
        R.ev(len(recs), len(recs))
        R.add("transitions")
        R.cls("binsizes")
        for ob in (0, 1):
            try:
                san = sanitize_records(bdf, schema="pairs", decode_chroms=True, is_one_based=bool(ob), tril_action="reflect", sort=False, validate=True)
                out = san(_frame([(r[0], r[1] + ob, r[2], r[3] + ob) for r in recs], tags=False))
                got = {int(ix): (int(b1), int(b2)) for ix, b1, b2 in zip(out.index, out["bin1_id"], out["bin2_id"])}
                bad = [(recs[k], got.get(k), w) for k, w in enumerate(want) if got.get(k) != w]
                if bad:
                    R.mismatch("record-in-wrong-pixel:binsize", {**inner, "one_based": ob}, f"(record, got, want) = {bad[:4]}")
                a = aggregate_records(sort=True, count=True)(out)
                if int(a["count"].sum()) != len(recs):
                    R.mismatch("total!=retained-records", {**inner, "one_based": ob}, f"{int(a['count'].sum())} != {len(recs)}")
            except Exception as ex:
                R.mismatch("valid-chunk-raises:" + type(ex).__name__, {**inner, "one_based": ob}, f"{ex!s:.300}")
        # records just outside: position == length + (one_based) ... must be refused; (position == length itself is finding F02's territory
        # and is judged by the records leg)
        for bad in (("chr2", sizes["chr2"] + 1, "chr10", 0), ("chr2", 0, "chr10", sizes["chr10"] + 1)):
            try:
                san = sanitize_records(bdf, schema="pairs", decode_chroms=True, is_one_based=False, tril_action="reflect", sort=False, validate=True)
                out = san(_frame([bad], tags=False))
                if len(out):
                    R.mismatch("out-of-range-record-accepted:binsize", {**inner, "refuse": list(bad)}, f"assigned to {out[['bin1_id', 'bin2_id']].values.tolist()}")
            except Exception:
                pass


def run(unit, R, tier, only=None):
    leg = unit["leg"]
    if leg == "binsizes":
        _binsizes(R, unit, only)
        return
    if leg == "tabix-sched":
        _tabix_sched(R, unit["t"], tier, only)
        return
    if leg == "records":
        tabs = _tables(unit["B"])[unit["lo"]:unit["hi"]]
        for q, t in enumerate(tabs):
            flavour = "chr" if (unit["lo"] + q) % 2 else "abc"
            if only is not None and only.get("table") != [list(c) for c in t]:
                continue
            _records_table(R, t, flavour, tier, only, unit["lo"] + q)
        R.sample({"leg": leg, "table": [list(c) for c in tabs[0]], "records": "all (c1,p1,c2,p2), p in -1..L+1, c in table+unknown",
                  "options": "zero/one-based x tril x sided"})
    elif leg == "multiset":
        _multiset(R, unit["k"], only)
    elif leg == "pixels":
        _pixels(R, unit["n"], only)
    elif leg == "loaders":
        _loaders(R, unit["B"], unit["k"], only)
    else:
        raise ValueError(leg)


def _sizes_of(table, flavour):
    return models.ref_chromsizes(alpha.table_bins([tuple(c) for c in table], flavour))


def classify(m):
    """F02: a record whose zero-based position equals the chromosome length (one past the last base) is accepted by
    sanitize_records (`>` instead of `>=`), hence by `cload pairs` and `load -f bg2`; every out-of-range anchor of the
    record must be exactly at position == length for the signature to match."""
    cl = m["clause"]
    inner = m["case"].get("inner") or {}
    try:
        if cl == "out-of-range-record-accepted":
            sizes = _sizes_of(inner["table"], inner["names"])
            c1, p1, c2, p2 = inner["refuse"]
            ob = inner["opt"]["one_based"]
            anchors = [(c1, p1 - ob), (c2, p2 - ob)]
        elif cl == "cload-pairs:out-of-range-record-counted":
            sizes = _sizes_of(inner["table"], "num" if str(inner["invalid"][0]).isdigit() else "chr")
            c1, p1, c2, p2 = inner["invalid"]
            anchors = [(c1, p1), (c2, p2)]
        elif cl == "load-bg2:out-of-range-record-counted":
            sizes = _sizes_of(inner["table"], "num" if str(inner["invalid"][1]).isdigit() else "chr")
            anchors = [(inner["invalid"][1], inner["invalid"][2])]
        else:
            return None
        bad = [(c, p) for c, p in anchors if not (0 <= p < sizes[c])]
        if bad and all(p == sizes[c] for c, p in bad):
            return "F02"
    except Exception:
        return None
    return None
