"""C15 — file-level operations preserve content and touch nothing else (E2: BFS over histories of real files)."""
from __future__ import annotations

import os
import shutil

import h5py
import numpy as np

from vmc import alpha, build, fixtures as fx, h5ref
from vmc.core import scratch
from vmc.fsmodel import FS, MustFail, Unspecified

ID = "C15"
TECHNIQUE = 'explicit-state model checking: breadth-first search over histories of real file operations on real HDF5 files, states deduplicated by the canonical form of a lock-step reference graph model, invariant evaluated in every state'
LEVEL = "model_checking"
RULE = ("explicit-state search: states = contents of two real HDF5 files X, Y (canonicalised through the reference graph model), "
        "transitions = real calls create_cooler(file::path, D1|D2, mode w|a), cp, cp(overwrite), mv, ln (hard), ln (soft), ln (soft -> "
        "external) over paths {/, /a, /a/b, /c}, URIs with and without the leading slash; breadth-first from two initial states "
        "(nothing exists; X seeded with a root cooler, a foreign group with a data set and a custom root attribute) to depth D, "
        "deduplicated by the model's canonical form. After EVERY transition: every collection of the model is recognised "
        "(is_cooler) and reads identically to its data set (bins, pixels, attributes) through Cooler(uri); list_coolers(file) == "
        "model listing (link targets counted under the path they are reachable at); every listed path is itself recognised; "
        "is_cooler is False WITHOUT raising for every other path of the alphabet, a data set path, a missing path, a missing file; "
        "foreign objects and attributes untouched; an operation on a missing source (no overwrite) touches nothing that existed. "
        "Non-trivial: a transition from a state holding >=1 collection. Distinct by construction (state dedup).")
EXTRA_LEGS = "two more initial states at depth 1 (thorough 2): 'mcool' (root tagged HDF5::MCOOL, /resolutions/2 and /resolutions/4, free paths /a and /0) and the seeded state over the paths {/, /resolutions/2, /resolutions/4, /a}." + ' the reference model defines the cross-file copy into the root of an existing file that holds no root collection; the mcool state has a second file with a root collection.'
BOUNDS = {"quick": "depth 2 from the empty and the seeded initial state; depth 1 over a 5-path alphabet from the linked initial state (soft + hard link to a collection) and from the mcool initial state (file tagged and laid out as a multi-resolution file, free paths /a and /0) and from the seeded state over the paths {/, /resolutions/2, /resolutions/4, /a}; every cp / cp -w / mv / ln / ln -s operation of the alphabet is also run once through the command line from the seeded and the linked state (depth 1; depth 2 from the linked state in the thorough tier), with `cooler ls` and `cooler ls -l` compared with the listing in every state reached",
          "thorough": "depth 3 from the empty state (third step restricted to operations on file X, operations on a missing source up to depth 2), depth 2 from the seeded, the linked and the mcool state; every cp / cp -w / mv / ln / ln -s operation of the alphabet is also run once through the command line from the seeded and the linked state (depth 1; depth 2 from the linked state in the thorough tier), with `cooler ls` and `cooler ls -l` compared with the listing in every state reached"}
ASSUMPTIONS = ["excluded from the alphabet (no defined meaning): mv / hard ln whose source is the root group, any operation whose destination "
               "lies inside the source's own subtree or is already occupied (except create and cp(overwrite)), links through links of another file",
               "two files with the same canonical model state have the same futures under every operation of the alphabet"]
EXPECT_CLASSES = {"*": ["op:create", "op:cp", "op:cp-overwrite", "op:mv", "op:ln-hard", "op:ln-soft", "op:ln-ext", "refused-as-required", "depth:2", "via-cli"]}

PATHS = ["/", "/a", "/a/b", "/c"]
FILES = ["X", "Y"]
DATA = {
    "D1": (((2, 2), (2,)), [(0, 0), (0, 2), (1, 1)]),
    "D2": (((1, 3), (2, 2)), [(0, 1), (1, 3), (2, 2), (3, 3)]),
}


# D1 is created with an assembly name and metadata, D2 with neither: a re-creation with the other data set must replace them
META = {"D1": {"assembly": "asmD1", "metadata": {"sample": "one", "n": 1}}, "D2": {}}


def data_content(d):
    table, cells = DATA[d]
    bins = alpha.table_bins(table, "chr")
    return bins, fx.pixvals(cells, len(bins))


def all_ops(PATHS=PATHS):
    ops = []
    for f in FILES:
        for p in PATHS:
            for d in DATA:
                for mode in ("w", "a"):
                    ops.append(("create", f, p, d, mode))
    for sf in FILES:
        for sp in PATHS:
            for df in FILES:
                for dp in PATHS:
                    if (sf, sp) == (df, dp):
                        continue
                    ops.append(("cp", sf, sp, df, dp))
                    if sf != df:
                        ops.append(("cp-overwrite", sf, sp, df, dp))
                        ops.append(("ln-ext", sf, sp, df, dp))
                    else:
                        ops.append(("mv", sf, sp, df, dp))
                        ops.append(("ln-hard", sf, sp, df, dp))
                        ops.append(("ln-soft", sf, sp, df, dp))
    return ops


OPS = all_ops()
PATHS_L = ["/", "/a", "/c", "/h", "/d"]
OPS_L = all_ops(PATHS_L)     # alphabet of the 'linked' initial state (X: /a = D1, /c soft -> /a, /h hard -> /a; /d free)
# alphabet of the 'mcool' initial state: X is laid out and tagged like a multi-resolution file (root attributes format=HDF5::MCOOL,
# /resolutions/2 = D1, /resolutions/4 = D2) and Y holds D2 at its root; /a and /0 are free ('/0' is the group name of the legacy multi-resolution layout)
PATHS_M = ["/", "/resolutions/2", "/resolutions/4", "/a", "/0"]
OPS_M = all_ops(PATHS_M)
# the seeded initial state (root collection + foreign objects) over paths below /resolutions: assembling a multi-resolution layout
# by hand, one append at a time, in a file that already holds a root collection
PATHS_R = ["/", "/resolutions/2", "/resolutions/4", "/a"]
OPS_R = all_ops(PATHS_R)
ALPHA = {"linked": (OPS_L, PATHS_L), "mcool": (OPS_M, PATHS_M), "seeded-res": (OPS_R, PATHS_R)}


def units(tier):
    th = tier == "thorough"
    for init in ("empty", "seeded"):
        for k in range(len(OPS)):
            yield {"init": init, "first": k, "depth": 3 if (th and init == "empty") else 2}
    for k in range(len(OPS_L)):
        yield {"init": "linked", "first": k, "depth": 2 if th else 1}
    for k in range(len(OPS_M)):
        yield {"init": "mcool", "first": k, "depth": 2 if th else 1}
    for k in range(len(OPS_R)):
        yield {"init": "seeded-res", "first": k, "depth": 2 if th else 1}
    # the same operations through the command line (cooler cp | mv | ln [-s] | cp -w), listing through `cooler ls [-l]`
    for init, ops in (("seeded", OPS), ("linked", OPS_L)):
        for k in range(len(ops)):
            if ops[k][0] != "create":
                yield {"init": init, "first": k, "depth": 2 if (th and init == "linked") else 1, "via": "cli"}


def spell(path, k):
    """URI group spelling: with / without the leading slash, alternating deterministically"""
    if path == "/":
        return ["", "::/", "::"][k % 3]
    return "::" + (path if k % 2 == 0 else path[1:])


class World:
    """the real side: a directory holding X.cool / Y.cool"""

    def __init__(self, d, via="api"):
        self.d = d
        self.via = via

    def path(self, f):
        return os.path.join(self.d, f + ".cool")

    def uri(self, f, p, k=0):
        return self.path(f) + spell(p, k)

    def copy_to(self, d2):
        os.makedirs(d2, exist_ok=True)
        for f in FILES:
            if os.path.exists(self.path(f)):
                shutil.copy(self.path(f), os.path.join(d2, f + ".cool"))
        return World(d2, self.via)

    def apply(self, op, k):
        import cooler
        from cooler import fileops
        kind = op[0]
        if kind == "create":
            _, f, p, d, mode = op
            bins, pix = data_content(d)
            cooler.create_cooler(self.uri(f, p, k), build.bins_df(bins), fx.frame(pix), columns=["count", "score"],
                                 dtypes={"score": float}, ordered=True, mode=mode, **META[d])
        else:
            _, sf, sp, df, dp = op
            s, t = self.uri(sf, sp, k), self.uri(df, dp, k + 1)
            if self.via == "cli":
                args = {"cp": ["cp"], "cp-overwrite": ["cp", "-w" if k % 2 else "--overwrite"], "mv": ["mv"], "ln-hard": ["ln"],
                        "ln-soft": ["ln", "-s" if k % 2 else "--soft"], "ln-ext": ["ln", "-s"]}[kind]
                code, so, exc = build.cli(args + [s, t])
                if exc is not None:
                    raise exc
                if code != 0:
                    raise RuntimeError(f"cooler {' '.join(args)} exits {code}: {so!s:.200}")
                return
            if kind == "cp":
                fileops.cp(s, t)
            elif kind == "cp-overwrite":
                fileops.cp(s, t, overwrite=True)
            elif kind == "mv":
                fileops.mv(s, t)
            elif kind == "ln-hard":
                fileops.ln(s, t)
            else:
                fileops.ln(s, t, soft=True)


def model_apply(m, op):
    kind = op[0]
    if kind == "create":
        m.op_create(op[1], op[2], op[3], op[4])
    elif kind == "cp":
        m.op_cp(op[1], op[2], op[3], op[4])
    elif kind == "cp-overwrite":
        m.op_cp(op[1], op[2], op[3], op[4], overwrite=True)
    elif kind == "mv":
        m.op_mv(op[1], op[2], op[4])
    elif kind == "ln-hard":
        m.op_ln(op[1], op[2], op[3], op[4], soft=False)
    else:
        m.op_ln(op[1], op[2], op[3], op[4], soft=True)


_content_cache = {}


def expected_read(d):
    if d not in _content_cache:
        bins, pix = data_content(d)
        _content_cache[d] = ([tuple(b) for b in bins], {k: (v["count"], v["score"]) for k, v in pix.items()})
    return _content_cache[d]


def observe(R, inner, w, m, seeded, paths=PATHS):
    """the invariant, evaluated in one state"""
    import cooler
    from cooler import fileops
    ok = True
    for f in FILES:
        fp = w.path(f)
        if f not in m.files:
            if os.path.exists(fp):
                # the implementation may have created an empty file on a refused operation: it must hold no collection
                try:
                    if fileops.list_coolers(fp):
                        R.mismatch("collection-in-a-file-the-model-does-not-have", inner, f"{f}: {fileops.list_coolers(fp)}")
                        ok = False
                except Exception:
                    pass
            else:
                try:
                    r = fileops.is_cooler(fp)
                    if r is not False:
                        R.mismatch("is_cooler(missing file)!=False", inner, repr(r))
                        ok = False
                except Exception as e:
                    R.mismatch("is_cooler-raises-on-missing-file", inner, f"{type(e).__name__}: {e!s:.100}")
                    ok = False
            continue
        want = m.listing(f)
        dangling = want.pop("__dangling__", None)
        # ---- listing ----
        try:
            got = fileops.list_coolers(fp)
        except Exception as e:
            R.mismatch("list_coolers-raises" + (":dangling-link" if dangling else ""), inner, f"{type(e).__name__}: {e!s:.150} file={f} model={sorted(want)}")
            ok = False
            got = None
        if got is not None:
            if sorted(got) != sorted(want) or len(got) != len(set(got)):
                R.mismatch("listing!=collections-held" + (":external-link" if m.has_external(f) else ""), inner, f"file={f} got={sorted(got)} want={sorted(want)}")
                ok = False
            for p in got:
                try:
                    if fileops.is_cooler(fp + "::" + p) is not True:
                        R.mismatch("listed-path-not-recognised" + (":external-link" if m.has_external(f) else ""), inner, f"file={f} path={p}")
                        ok = False
                except Exception as e:
                    R.mismatch("listed-path-not-recognised" + (":external-link" if m.has_external(f) else ""), inner, f"file={f} path={p} {type(e).__name__}")
                    ok = False
        if w.via == "cli" and got is not None:
            wb_size = {"D1": "2", "D2": "<variable>"}
            for flag in ([], ["-l"], ["--long"]):
                code, so, exc = build.cli(["ls"] + flag + [fp])
                lines = [ln for ln in (so or "").splitlines() if ln.strip()]
                exp = [fp + "::" + p + (("\t" + wb_size[want[p]]) if flag else "") for p in got]
                if code != 0 or exc is not None or lines != exp:
                    R.mismatch("cooler-ls!=list_coolers", inner, f"flag={flag} code={code} exc={exc!r:.100} got={lines} want={exp}")
                    ok = False
        # ---- every collection recognised and reads identically ----
        for p, d in sorted(want.items()):
            uri = fp + "::" + p
            R.c["reads"] += 1
            try:
                if fileops.is_cooler(uri) is not True:
                    R.mismatch("collection-not-recognised", inner, f"file={f} path={p}")
                    ok = False
                    continue
                clr = cooler.Cooler(uri)
                wb, wp = expected_read(d)
                bt = clr.bins()[:]
                gb = list(zip(bt["chrom"].astype(str), bt["start"].tolist(), bt["end"].tolist()))
                px = clr.pixels()[:]
                gp = {(a, b): (c, s) for a, b, c, s in zip(px["bin1_id"].tolist(), px["bin2_id"].tolist(), px["count"].tolist(), px["score"].tolist())}
                if gb != wb or gp != wp or len(px) != len(wp):
                    R.mismatch("collection-does-not-read-as-its-content", inner, f"file={f} path={p} data={d} bins={gb} pixels={gp}")
                    ok = False
                info = clr.info
                want_asm = META[d].get("assembly", "unknown")
                want_md = META[d].get("metadata", {})
                if info.get("genome-assembly") != want_asm or info.get("metadata") != want_md:
                    R.mismatch("collection-attributes-differ", inner, f"file={f} path={p} data={d} assembly={info.get('genome-assembly')!r} metadata={info.get('metadata')!r}")
                    ok = False
                if info.get("nnz") != len(wp) or info.get("nbins") != len(wb) or info.get("sum") != sum(v[0] for v in wp.values()):
                    R.mismatch("collection-attributes-differ", inner, f"file={f} path={p} info={ {k: info.get(k) for k in ('nnz', 'nbins', 'sum')} }")
                    ok = False
            except Exception as e:
                R.mismatch("collection-unreadable:" + type(e).__name__, inner, f"file={f} path={p} {e!s:.150}")
                ok = False
        # ---- recognition is False, not an error, everywhere else ----
        for p in list(paths) + ["/nope", "/a/nope/deeper", "/foreign", "/foreign/d", "/bins/start"]:
            if p in want:
                continue
            try:
                r = fileops.is_cooler(fp + "::" + p)
                if r is not False:
                    R.mismatch("is_cooler-true-for-a-non-collection", inner, f"file={f} path={p}")
                    ok = False
            except Exception as e:
                R.mismatch("is_cooler-raises-instead-of-False", inner, f"file={f} path={p} {type(e).__name__}: {e!s:.80}")
                ok = False
        # ---- foreign objects ----
        if seeded and f == "X":
            fo = m.resolve("X", "/foreign")
            try:
                with h5py.File(fp, "r") as h:
                    if fo is not None:
                        if "foreign" not in h or h["foreign"].attrs.get("x") != 1 or h["foreign/d"][:].tolist() != [0, 1, 2]:
                            R.mismatch("foreign-object-touched", inner, "")
                            ok = False
                    rootobj = m.objs[m.files["X"]]
                    if rootobj.get("custom_attr", False) and h.attrs.get("custom") != "keep":
                        R.mismatch("foreign-root-attribute-lost", inner, f"{dict(h.attrs)}")
                        ok = False
            except Exception as e:
                R.mismatch("file-does-not-open", inner, f"{type(e).__name__}: {e!s:.100}")
                ok = False
    return ok


def initial(init, d):
    os.makedirs(d, exist_ok=True)
    w = World(d)
    m = FS()
    if init in ("seeded", "seeded-res"):
        import cooler
        bins, pix = data_content("D1")
        cooler.create_cooler(w.path("X"), build.bins_df(bins), fx.frame(pix), columns=["count", "score"], dtypes={"score": float}, ordered=True, **META["D1"])
        with h5py.File(w.path("X"), "r+") as f:
            g = f.create_group("foreign")
            g.attrs["x"] = 1
            g.create_dataset("d", data=np.arange(3))
            f.attrs["custom"] = "keep"
        m.op_create("X", "/", "D1", "w")
        fo = m.new_obj(foreign=True)
        m.objs[m.files["X"]]["children"]["foreign"] = ("hard", fo)
        m.objs[m.files["X"]]["custom_attr"] = True
    elif init == "linked":
        import cooler
        from cooler import fileops
        bins, pix = data_content("D1")
        cooler.create_cooler(w.path("X") + "::/a", build.bins_df(bins), fx.frame(pix), columns=["count", "score"], dtypes={"score": float}, ordered=True, **META["D1"])
        with h5py.File(w.path("X"), "r+") as f:
            f["/c"] = h5py.SoftLink("/a")
            f["/h"] = f["/a"]
        m.op_create("X", "/a", "D1", "w")
        m.op_ln("X", "/a", "X", "/c", soft=True)
        m.op_ln("X", "/a", "X", "/h", soft=False)
    elif init == "mcool":
        import cooler
        for k, (p, d) in enumerate((("/resolutions/2", "D1"), ("/resolutions/4", "D2"))):
            bins, pix = data_content(d)
            cooler.create_cooler(w.path("X") + "::" + p, build.bins_df(bins), fx.frame(pix), columns=["count", "score"], dtypes={"score": float},
                                 ordered=True, mode="a" if k else "w", **META[d])
            m.op_create("X", p, d, "a" if k else "w")
        with h5py.File(w.path("X"), "r+") as f:
            f.attrs.update({"format": "HDF5::MCOOL", "format-version": 2})
        # the other file holds a root collection, so that cross-file operations INTO the tagged file are one step away
        bins, pix = data_content("D2")
        cooler.create_cooler(w.path("Y"), build.bins_df(bins), fx.frame(pix), columns=["count", "score"], dtypes={"score": float}, ordered=True, **META["D2"])
        m.op_create("Y", "/", "D2", "w")
    return w, m


def run(unit, R, tier, only=None):
    depth = unit["depth"]
    seeded = unit["init"] in ("seeded", "seeded-res")
    OPS, paths = ALPHA.get(unit["init"], (globals()["OPS"], PATHS))
    root = scratch.sub(f"c15_{os.getpid()}_{unit['init']}_{unit['first']}_{unit.get('via', 'api')}")
    try:
        w0, m0 = initial(unit["init"], os.path.join(root, "s0"))
        w0.via = unit.get("via", "api")
        if w0.via == "cli":
            R.cls("via-cli")
        os.makedirs(w0.d, exist_ok=True)
        frontier = [([], w0, m0)]
        seen = {m0.canon()}
        nstate = 0
        for level in range(1, depth + 1):
            nxt = []
            for hist, w, m in frontier:
                opset = [unit["first"]] if level == 1 else range(len(OPS))
                for k in opset:
                    op = OPS[k]
                    if level >= 3 and (op[1] != "X" or (op[0] not in ("create", "cp", "ln-ext") and op[3] != "X")):
                        continue        # third step: operations whose source / target file is X (file Y only as a copy or link destination)
                    h2 = hist + [k]
                    if only is not None and only.get("history") is not None:
                        oh = only["history"]
                        if h2 != oh[:len(h2)]:
                            continue
                    m2 = m.clone()
                    try:
                        model_apply(m2, op)
                        expect = "ok"
                    except Unspecified:
                        continue
                    except MustFail:
                        if level >= 3:
                            continue        # operations on a missing source are explored up to depth 2 only
                        expect = "fail"
                        m2 = m
                    inner = {"history": h2, "ops": [list(OPS[q]) for q in h2]}
                    nstate += 1
                    w2 = w.copy_to(os.path.join(root, f"s{nstate}"))
                    R.order = (R.order[0], nstate)
                    R.c["evaluations"] += 1
                    R.c["transitions"] += 1
                    R.c["nontrivial"] += bool(any(k != "__dangling__" for f in FILES for k in m.listing(f)))
                    R.classes["op:" + op[0]] += 1
                    R.classes["depth:%d" % level] += 1
                    raised = None
                    try:
                        w2.apply(op, sum(h2))
                    except Exception as e:
                        raised = e
                    if expect == "fail":
                        # source missing (no overwrite requested): whether it raises or not, nothing that existed may be touched
                        if raised is not None:
                            R.classes["refused-as-required"] += 1
                        observe(R, inner, w2, m, seeded, paths)
                        shutil.rmtree(w2.d, ignore_errors=True)
                        continue
                    if raised is not None:
                        R.mismatch("operation-raises:" + type(raised).__name__, inner, f"{op}: {raised!s:.200}")
                        # whatever happened, previously existing collections must be intact unless the op targets them
                        shutil.rmtree(w2.d, ignore_errors=True)
                        continue
                    good = observe(R, inner, w2, m2, seeded, paths)
                    R.c["traces"] += 1
                    c = m2.canon()
                    if good and c not in seen and level < depth and not any(m2.has_external(f) for f in FILES):
                        # (states holding an external link are checked but not expanded: what later operations on the OTHER file
                        # mean for the link is outside the statement, and finding F19 is visible in most of them anyway)
                        seen.add(c)
                        nxt.append((h2, w2, m2))
                    else:
                        shutil.rmtree(w2.d, ignore_errors=True)
            for _, w, _ in frontier:
                if w is not w0:
                    shutil.rmtree(w.d, ignore_errors=True)
            frontier = nxt
        R.c["states"] += len(seen)
        if unit["first"] == 5 and unit["init"] == "seeded":
            R.sample({"init": unit["init"], "first_op": list(OPS[unit["first"]]), "depth": depth, "alphabet_size": len(OPS),
                      "example_history": [list(OPS[q]) for q in (unit["first"], 70, 33)]})
        if unit["first"] == 7 and unit["init"] == "linked":
            R.sample({"init": "linked: X holds /a (cooler), /c soft link -> /a, /h hard link -> /a", "first_op": list(OPS[unit["first"]]), "depth": depth})
    finally:
        scratch.rm(root)


def classify(m):
    """F19: a collection reachable through an EXTERNAL link is listed under its name inside the other file (a path that does
    not exist in the listed file), and that listed path is then not recognised.
    F20: list_coolers raises (AttributeError on None, or KeyError) when the file contains a dangling soft link (e.g. after the link's target was moved)."""
    if m["clause"] in ("listing!=collections-held:external-link", "listed-path-not-recognised:external-link"):
        ops = m["case"]["inner"]["ops"]
        if any(o[0] == "ln-ext" for o in ops):
            return "F19"
    if m["clause"] == "list_coolers-raises:dangling-link" and ("KeyError" in m["detail"] or "'NoneType' object has no attribute 'name'" in m["detail"]):
        return "F20"
    return None
