"""C14 — table selectors and bin annotation return the rows and coordinates asked for (E1)."""
from __future__ import annotations

import itertools

import h5py
import numpy as np
import pandas as pd

from vmc import alpha, build, fixtures as fx, h5ref
from vmc.core import scratch

ID = "C14"
LEVEL = "model_checking"
RULE = ("3 coolers (5-6 bins in 2-3 chromosomes, <=6 pixels, one extra bin column, one extra pixel column), chromosome column stored as "
        "HDF5 enum and as raw integers; selectors leg: for chroms(), bins(), pixels(): EVERY slice(a,b) with a,b in {None,-N..N} "
        "resolving to lo<=hi, every scalar, every non-empty column subset (list) and every single column (string -> Series), "
        "convert_enum on/off; annotate leg: EVERY ordered selection without repetition of <=4 pixels and sequences with "
        "repetition of length n+1 (all over 2 pixels, every 9th over 3 pixels) (both sides of the len(bins)>len(pixels) switch), incl. the empty selection; frames "
        "holding both id columns / only bin1_id / only bin2_id; bins given as full frame, as selector and as EVERY contiguous slice "
        "containing the referenced bins; replace on/off; pixels(join=True) and matrix(as_pixels=True, join=True). Oracle: rows "
        "lo..hi-1 of the raw HDF5 columns with index labels lo..hi-1; each annotated pixel carries chrom/start/end/extra of its own two "
        "bins, order and index of the pixel frame unchanged. Non-trivial: a proper sub-range / >=2 pixels. Distinct by construction.")
EXTRA_LEGS = 'all selectors (both convert_enum settings, every column subset) are taken from the one Cooler object before any is queried; a square-storage cooler with pixels on both sides of the diagonal (column bins of a selection below all of its row bins).'
BOUNDS = {"quick": "all slices and column subsets on 3 coolers x 2 encodings; annotate: all contiguous bin slices for selections of size <=2, "
                   "{full, selector, tightest slice} for sizes 3-4",
          "thorough": "as quick plus all contiguous bin slices for size 3 and sequences of length n+2"}
ASSUMPTIONS = ["an integer-encoded chromosome may come back as name or id in pixels(join=True) (either identifies the bin's chromosome)",
               "slice bounds outside [-N, N] are not enumerated"]
EXPECT_CLASSES = {"*": ["sel:chroms", "sel:bins", "sel:pixels", "ann:full", "ann:selector", "ann:slice", "ann:empty", "ann:many-pixels", "enc:int", "enc:enum"]}

SPECS = [
    (((2, 2, 1), (2, 2)), [(0, 0), (0, 3), (1, 2), (2, 4), (3, 3), (4, 4)]),
    (((1, 2), (3, 1, 2), (1,)), [(0, 1), (0, 5), (1, 1), (2, 3), (3, 5), (5, 5)]),
    (((2, 2, 2), (2, 2), (2,)), [(0, 2), (1, 1), (1, 5), (3, 4), (4, 5)]),
    # square storage: pixels on both sides of the diagonal, so a selection's column bins can lie BELOW all of its row bins
    (((2, 2, 1), (2, 2)), [(0, 3), (1, 1), (2, 1), (3, 0), (4, 2), (4, 4)]),
]
SQUARE = {3}


def make(si, enc):
    import cooler
    table, cells = SPECS[si]
    bins = alpha.table_bins(table, "chr")
    n = len(bins)
    key = ("c14", si, enc)
    if key in fx._cache:
        return fx._cache[key], bins
    p = scratch.fresh()
    bdf = build.bins_df(bins)
    bdf["gc"] = [0.25 + 0.125 * k for k in range(n)]
    pix = fx.pixvals(cells, n)
    cooler.create_cooler(p, bdf, fx.frame(pix), columns=["count", "score"], dtypes={"score": float}, ordered=True, symmetric_upper=si not in SQUARE)
    if enc == "int":
        with h5py.File(p, "r+") as f:
            ids = f["bins/chrom"][:].astype(np.int32)
            del f["bins/chrom"]
            d = f["bins"].create_dataset("chrom", data=ids, dtype=np.int32)
            d.attrs["enum_path"] = "/chroms/name"
    fx._cache[key] = p
    return p, bins


def units(tier):
    for si in range(len(SPECS)):
        for enc in ("enum", "int"):
            if si in SQUARE and enc == "int":
                continue
            for tab in ("chroms", "bins", "pixels"):
                if si not in SQUARE or tab == "pixels":
                    yield {"leg": "sel", "s": si, "enc": enc, "tab": tab}
            for size in ((0, 1, 2, 3) if si in SQUARE else (0, 1, 2, 3, 4, "rep")):
                if size == 4:
                    for part in (range(8) if tier == "thorough" else (0, 2, 4, 6)):   # quick: every other ordered 4-selection
                        yield {"leg": "ann", "s": si, "enc": enc, "size": size, "part": part, "of": 8}
                elif size in (3, "rep"):
                    for part in range(4):
                        yield {"leg": "ann", "s": si, "enc": enc, "size": size, "part": part, "of": 4}
                else:
                    yield {"leg": "ann", "s": si, "enc": enc, "size": size, "part": 0, "of": 1}
            yield {"leg": "join", "s": si, "enc": enc}


def raw_tables(p):
    with h5py.File(p, "r") as f:
        names = [x.decode() for x in f["chroms/name"][:]]
        t = {
            "chroms": {"name": names, "length": f["chroms/length"][:].tolist()},
            "bins": {"chrom": [int(x) for x in f["bins/chrom"][:]], "start": f["bins/start"][:].tolist(), "end": f["bins/end"][:].tolist(),
                     "gc": f["bins/gc"][:].tolist()},
            "pixels": {"bin1_id": f["pixels/bin1_id"][:].tolist(), "bin2_id": f["pixels/bin2_id"][:].tolist(),
                       "count": f["pixels/count"][:].tolist(), "score": f["pixels/score"][:].tolist()},
        }
    return t, names


def _slices(N):
    vals = [None] + list(range(-N, N + 1))
    out = []
    for a in vals:
        for b in vals:
            lo, hi, _ = slice(a, b).indices(N)
            if lo <= hi:
                out.append((a, b, lo, hi))
    return out


def _sel(R, unit, only):
    import cooler
    p, bins = make(unit["s"], unit["enc"])
    raw, names = raw_tables(p)
    tab = unit["tab"]
    cols = list(raw[tab].keys())
    N = len(raw[tab][cols[0]])
    clr = cooler.Cooler(p)
    R.add("states")
    R.add("traces")
    R.cls("enc:" + unit["enc"])
    subsets = [list(c) for r in range(1, len(cols) + 1) for c in itertools.combinations(cols, r)] + [c for c in cols] + [None]
    if tab == "pixels":     # a permuted column list must give the columns in the order asked for
        subsets.append(["count", "bin2_id", "bin1_id"])
    kk = 0
    # ALL selectors (both convert_enum settings, every column subset) are taken from the one Cooler object before any is queried
    bases = {conv: (getattr(clr, tab)(convert_enum=conv) if tab != "pixels" else clr.pixels(convert_enum=conv)) for conv in (True, False)}
    sels = {(conv, si): (bases[conv] if sub is None else bases[conv][sub]) for conv in (True, False) for si, sub in enumerate(subsets)}
    for conv in (True, False):
        for si, sub in enumerate(subsets):
            sel = sels[(conv, si)]
            want_cols = cols if sub is None else ([sub] if isinstance(sub, str) else sub)
            items = [("slice", a, b, lo, hi) for (a, b, lo, hi) in _slices(N)] + [("scalar", s, None, s % N, s % N + 1) for s in range(-N, N)]
            for kind, a, b, lo, hi in items:
                kk += 1
                inner = {"conv": conv, "cols": sub, "kind": kind, "a": a, "b": b}
                if only is not None and only != inner:
                    continue
                R.order = (R.order[0], kk)
                R.c["evaluations"] += 1
                R.c["nontrivial"] += (hi - lo) not in (0, N)
                R.c["transitions"] += 1
                R.classes["sel:" + tab] += 1
                try:
                    res = sel[a:b] if kind == "slice" else sel[a]
                except Exception as e:
                    R.mismatch("selector-raises:" + type(e).__name__, inner, f"{e!s:.200}")
                    continue
                try:
                    if isinstance(sub, str):
                        if not isinstance(res, pd.Series):
                            R.mismatch("single-column-not-a-series", inner, type(res).__name__)
                            continue
                        got = {sub: res}
                    else:
                        if list(res.columns) != want_cols:
                            R.mismatch("columns!=requested", inner, f"got={list(res.columns)} want={want_cols}")
                            continue
                        got = {c: res[c] for c in want_cols}
                    if list(res.index) != list(range(lo, hi)):
                        R.mismatch("row-labels!=lo..hi-1", inner, f"got={list(res.index)} want={list(range(lo, hi))}")
                        continue
                    for c, ser in got.items():
                        wv = raw[tab][c][lo:hi]
                        gv = ser.tolist()
                        if tab == "bins" and c == "chrom":
                            asnames = [names[x] for x in wv]
                            if conv:
                                ok = [str(x) for x in gv] == asnames
                            else:
                                ok = gv == wv or [str(x) for x in gv] == asnames
                        else:
                            ok = gv == wv
                        if not ok:
                            R.mismatch("rows!=stored-rows", inner, f"col={c} got={gv} want={wv}")
                            break
                except Exception as e:
                    R.mismatch("selector-result-unusable:" + type(e).__name__, inner, f"{e!s:.200}")
                # what a caller does to a result must not show in the next answer: scribble on it, ask the same selector again
                if kk % 5 == 0 and hi > lo:
                    try:
                        if isinstance(res, pd.Series):
                            res.iloc[:] = res.iloc[0]
                            res.index = [900 + q for q in range(len(res))]
                        else:
                            res.iloc[:, 0] = res.iloc[0, 0]
                            res.index = [900 + q for q in range(len(res))]
                        again = sel[a:b] if kind == "slice" else sel[a]
                        c0 = sub if isinstance(sub, str) else want_cols[0]
                        ser = again if isinstance(again, pd.Series) else again[c0]
                        wv = raw[tab][c0][lo:hi]
                        gv = ser.tolist()
                        if tab == "bins" and c0 == "chrom":
                            okv = [str(x) for x in gv] == [names[x] for x in wv] or gv == wv
                        else:
                            okv = gv == wv
                        if list(again.index) != list(range(lo, hi)) or not okv:
                            R.mismatch("second-answer-shows-edits-made-to-the-first", inner, f"index={list(again.index)} values={gv} want={wv}")
                    except Exception as e:
                        R.mismatch("selector-raises-on-repeat:" + type(e).__name__, inner, f"{e!s:.200}")
    # ---- as_dict=True: the same rows as plain arrays (no labels), for the whole table, one column, a column pair ----
    for conv in (True, False):
        try:
            based = getattr(clr, tab)(as_dict=True, convert_enum=conv)
        except Exception as e:
            R.mismatch("selector-raises:" + type(e).__name__, {"as_dict": True, "conv": conv}, f"{e!s:.200}")
            continue
        for sub in (None, cols[0], cols[-2:]):
            sel = based if sub is None else based[sub]
            want_cols = cols if sub is None else ([sub] if isinstance(sub, str) else sub)
            for (a, b, lo, hi) in _slices(N):
                kk += 1
                inner = {"as_dict": True, "conv": conv, "cols": sub, "a": a, "b": b}
                if only is not None and only != inner:
                    continue
                R.order = (R.order[0], kk)
                R.ev(1, (hi - lo) not in (0, N))
                R.add("transitions")
                R.cls("sel-as-dict:" + tab)
                try:
                    res = sel[a:b]
                    if isinstance(sub, str) and not isinstance(res, dict):
                        res = {sub: res}
                    if list(res.keys()) != want_cols:
                        R.mismatch("columns!=requested", inner, f"got={list(res.keys())} want={want_cols}")
                        continue
                    for c in want_cols:
                        wv = raw[tab][c][lo:hi]
                        gv = np.asarray(res[c]).tolist()
                        if tab == "bins" and c == "chrom":
                            asn = [names[x] for x in wv]
                            ok = [x.decode() if isinstance(x, bytes) else str(x) for x in gv] == asn or (not conv and gv == wv)
                        elif tab == "chroms" and c == "name":
                            ok = [x.decode() if isinstance(x, bytes) else str(x) for x in gv] == [str(x) for x in wv]
                        else:
                            ok = gv == wv
                        if not ok:
                            R.mismatch("rows!=stored-rows", inner, f"col={c} got={gv} want={wv}")
                            break
                except Exception as e:
                    R.mismatch("selector-raises:" + type(e).__name__, inner, f"{e!s:.200}")
    R.sample({"leg": "sel", "table": tab, "N": N, "enc": unit["enc"], "slices": len(_slices(N)), "column_selections": len(subsets)})


def _ann(R, unit, tier, only):
    import cooler
    th = tier == "thorough"
    p, bins = make(unit["s"], unit["enc"])
    raw, names = raw_tables(p)
    n = len(bins)
    clr = cooler.Cooler(p)
    allpix = list(zip(raw["pixels"]["bin1_id"], raw["pixels"]["bin2_id"], raw["pixels"]["count"]))
    size = unit["size"]
    if size == "rep":
        # more pixels than bins (the other side of the len(bins) > len(pixels) switch): every sequence over 2 pixels of length n+1,
        # every 9th sequence over 3 pixels (thorough: every 3rd, and length n+2 over 2 pixels)
        seqs = [list(s) for s in itertools.product(range(2), repeat=n + 1)] + [list(s) for s in itertools.product(range(3), repeat=n + 1)][4::(3 if th else 9)]
        if th:
            seqs += [list(s) for s in itertools.product((1, 2), repeat=n + 2)]
    else:
        seqs = [list(s) for s in itertools.permutations(range(len(allpix)), size)]
    seqs = seqs[unit["part"]::unit.get("of", 1)]
    full = clr.bins()[:]
    selector = clr.bins()
    R.add("states")
    R.add("traces")
    R.cls("enc:" + unit["enc"])
    kk = 0
    for seq in seqs:
        rows = [allpix[q] for q in seq]
        for variant in (("both", "bin1", "bin2") if size != "rep" else ("both", "bin2")):
            d = {}
            if variant in ("both", "bin1"):
                d["bin1_id"] = np.array([r[0] for r in rows], dtype=np.int64)
            if variant in ("both", "bin2"):
                d["bin2_id"] = np.array([r[1] for r in rows], dtype=np.int64)
            d["count"] = np.array([r[2] for r in rows], dtype=np.int64)
            pdf0 = pd.DataFrame(d, index=[100 + 7 * k for k in range(len(rows))])
            # row labels of the caller's frame: increasing, all equal (what a concat without ignore_index gives), decreasing
            pdfs = [pdf0, pdf0.set_axis([5] * len(rows)), pdf0.set_axis([50 - k for k in range(len(rows))])]
            used = [r[0] for r in rows if variant != "bin2"] + [r[1] for r in rows if variant != "bin1"]
            lo_need, hi_need = (min(used), max(used) + 1) if used else (0, 0)
            bvars = [("full", None, None), ("selector", None, None), ("selector-cols", None, None)]
            if size in (0, 1, 2) or (th and size == 3):
                bvars += [("slice", a, b) for a in range(0, lo_need + 1) for b in range(hi_need, n + 1) if b > a]
                if size == 0:
                    bvars += [("slice", a, b) for a in range(n) for b in range(a + 1, n + 1)]
            else:
                bvars += [("slice", lo_need, hi_need), ("slice", max(0, lo_need - 1), min(n, hi_need + 1))]
            seen_b = set()
            for bk, a, b in bvars:
                if (bk, a, b) in seen_b:
                    continue
                seen_b.add((bk, a, b))
                for replace in (False, True):
                    kk += 1
                    inner = {"seq": seq, "variant": variant, "bins": [bk, a, b], "replace": replace}
                    if only is not None and only != inner:
                        continue
                    R.order = (R.order[0], kk)
                    R.c["evaluations"] += 1
                    R.c["nontrivial"] += len(rows) >= 2
                    R.c["transitions"] += 1
                    R.classes["ann:" + bk.split("-")[0]] += 1
                    pdf = pdfs[kk % 3]
                    R.classes["ann:labels-" + ("increasing", "repeated", "decreasing")[kk % 3]] += 1
                    if not rows:
                        R.classes["ann:empty"] += 1
                    if len(rows) >= n:
                        R.classes["ann:many-pixels"] += 1
                    btab = full if bk == "full" else selector if bk == "selector" else selector[["chrom", "start", "end", "gc"]] if bk == "selector-cols" else clr.bins()[a:b]
                    try:
                        out = cooler.annotate(pdf.copy(), btab, replace=replace)
                    except Exception as e:
                        R.mismatch("annotate-raises:" + type(e).__name__, inner, f"{e!s:.200}")
                        continue
                    try:
                        if list(out.index) != list(pdf.index):
                            R.mismatch("annotate:index-changed", inner, f"got={list(out.index)} want={list(pdf.index)}")
                            continue
                        if out["count"].tolist() != pdf["count"].tolist():
                            R.mismatch("annotate:row-order-changed", inner, f"got={out['count'].tolist()}")
                            continue
                        for side, col in (("1", "bin1_id"), ("2", "bin2_id")):
                            if col not in pdf.columns:
                                continue
                            suffix = side if variant == "both" else side
                            ids = pdf[col].tolist()
                            for fld, src in (("chrom", None), ("start", "start"), ("end", "end"), ("gc", "gc")):
                                name = fld + suffix
                                if name not in out.columns:
                                    R.mismatch("annotate:column-missing", inner, f"{name} not in {list(out.columns)}")
                                    break
                                gv = out[name].tolist()
                                if fld == "chrom":
                                    wv = [bins[i][0] for i in ids]
                                    ok = [str(x) for x in gv] == wv
                                else:
                                    wv = [raw["bins"][src][i] for i in ids]
                                    ok = gv == wv
                                if not ok:
                                    R.mismatch("annotate:wrong-bin-attributes", inner, f"{name}: got={gv} want={wv}")
                                    break
                            if replace and col in out.columns:
                                R.mismatch("annotate:replace-kept-id-column", inner, col)
                            if not replace and (col not in out.columns or out[col].tolist() != ids):
                                R.mismatch("annotate:id-column-lost", inner, col)
                    except Exception as e:
                        R.mismatch("annotate-result-unusable:" + type(e).__name__, inner, f"{e!s:.200} cols={list(out.columns)}")
    if size == 2:
        R.sample({"leg": "ann", "cooler": unit["s"], "pixels": allpix, "selection(indices into pixels)": seqs[7] if len(seqs) > 7 else seqs[:1],
                  "bins given as": "full | selector | every contiguous slice containing the referenced bins", "frame columns": ["both", "bin1", "bin2"]})


def _join(R, unit, only):
    import cooler
    p, bins = make(unit["s"], unit["enc"])
    raw, names = raw_tables(p)
    clr = cooler.Cooler(p)
    N = len(raw["pixels"]["count"])
    n = len(bins)
    R.add("states")
    R.add("traces")
    R.cls("enc:" + unit["enc"])
    kk = 0

    def check(inner, df, rows):
        wantc = [(bins[raw["pixels"]["bin1_id"][r]], bins[raw["pixels"]["bin2_id"][r]], raw["pixels"]["count"][r]) for r in rows]
        try:
            c1 = df["chrom1"].tolist()
            c2 = df["chrom2"].tolist()
            got = list(zip(df["start1"].tolist(), df["end1"].tolist(), df["start2"].tolist(), df["end2"].tolist(), df["count"].tolist()))
            want = [(a[1], a[2], b[1], b[2], c) for a, b, c in wantc]
            okc = all(str(x) == a[0] or x == names.index(a[0]) for x, (a, _, _) in zip(c1, wantc)) and \
                all(str(x) == b[0] or x == names.index(b[0]) for x, (_, b, _) in zip(c2, wantc))
            if got != want or not okc or len(c1) != len(wantc):
                R.mismatch("joined-pixels!=own-bins", inner, f"got={got} chrom1={c1} chrom2={c2} want={wantc}")
        except Exception as e:
            R.mismatch("joined-result-unusable:" + type(e).__name__, inner, f"{e!s:.200}")

    for (a, b, lo, hi) in _slices(N):
        kk += 1
        inner = {"call": "pixels(join=True)", "a": a, "b": b}
        if only is not None and only != inner:
            continue
        R.order = (R.order[0], kk)
        R.ev(1, 1 if hi - lo >= 2 else 0)
        R.add("transitions")
        R.cls("join")
        try:
            df = clr.pixels(join=True)[a:b]
            if list(df.index) != list(range(lo, hi)):
                R.mismatch("joined-pixels:row-labels", inner, f"{list(df.index)}")
            check(inner, df, list(range(lo, hi)))
        except Exception as e:
            R.mismatch("pixels(join)-raises:" + type(e).__name__, inner, f"{e!s:.200}")
    for (i0, i1) in alpha.intervals(n):
        for (j0, j1) in alpha.intervals(n)[::2]:
            kk += 1
            inner = {"call": "matrix(as_pixels,join)", "win": [i0, i1, j0, j1]}
            if only is not None and only != inner:
                continue
            R.order = (R.order[0], kk)
            rows = [r for r in range(N) if i0 <= raw["pixels"]["bin1_id"][r] < i1 and j0 <= raw["pixels"]["bin2_id"][r] < j1]
            R.ev(1, 1 if len(rows) >= 2 else 0)
            R.add("transitions")
            R.cls("join")
            try:
                df = clr.matrix(balance=False, as_pixels=True, join=True)[i0:i1, j0:j1]
                check(inner, df, rows)
            except Exception as e:
                R.mismatch("matrix(join)-raises:" + type(e).__name__, inner, f"{e!s:.200}")


def run(unit, R, tier, only=None):
    if unit["leg"] == "sel":
        _sel(R, unit, only)
    elif unit["leg"] == "ann":
        _ann(R, unit, tier, only)
    else:
        _join(R, unit, only)


def classify(m):
    """F13: annotate(empty pixel frame, PARTIAL bin table not containing bin 0) raises IndexError (ann.index[0] of an empty selection)."""
    if m["clause"] == "annotate-raises:IndexError":
        inner = m["case"]["inner"]
        if inner["seq"] == [] and inner["bins"][0] == "slice" and inner["bins"][1] > 0:
            return "F13"
    return None
