"""C18 — renaming chromosomes changes names only (E2 + E1)."""
from __future__ import annotations

import itertools
import shutil

import h5py
import numpy as np

from vmc import alpha, build, fixtures as fx, h5ref
from vmc.core import scratch

ID = "C18"
TECHNIQUE = 'exhaustive enumeration of all injective renaming maps + breadth-first search over chains of renamings (states = name tuples), differential oracle old-name-before vs new-name-after'
LEVEL = "model_checking"
RULE = ("coolers with 2 and 3 chromosomes (fixed and variable width), chromosome column as HDF5 enum and as raw integers; EVERY partial "
        "injective renaming map drawn per chromosome from {keep, longer name, shorter name, another chromosome's old name (swaps, "
        "cycles), a fresh name} that leaves names unique; chains of 2 (quick) / 3 (thorough) successive maps explored breadth-first "
        "(states = name tuples, deduplicated). Oracle after every rename, on the SAME Cooler object and on a fresh one: names in the "
        "original order; bin-table chromosome labels renamed; lengths, bins/start,end, pixels, both indexes and all attributes (minus "
        "volatile) bit-identical; for every bin-aligned region of every chromosome: extent, bins().fetch and matrix().fetch under the "
        "new name == under the old name before; old names that no longer exist are refused. Non-trivial: >=1 name changes. Distinct by "
        "construction.")
EXTRA_LEGS = "manycontigs: 3000 contigs renamed from short to long names and back (the HDF5 enum of the bin table's chromosome labels crosses its header size limit); " + 'every other chain applies its last renaming through a Cooler object opened before the history was applied through another object.'
BOUNDS = {"quick": "all maps; chains of depth 2 over a 5-map sub-alphabet", "thorough": "all maps; chains of depth 3"}
ASSUMPTIONS = ["names are ASCII without ':'"]
EXPECT_CLASSES = {"*": ["map:swap-or-cycle", "map:longer", "map:shorter", "map:partial", "enc:enum", "enc:int", "chain"]}

SPECS = [(((2, 2), (2,)), ["chr1", "chr2"]), (((1, 2), (3,), (2, 1, 1)), ["chrA", "chrB", "chrC"]), (((2, 2, 2), (2, 1), (2,)), ["a", "b", "c"])]


def make(si, enc):
    import cooler
    table, names = SPECS[si]
    key = ("c18", si, enc)
    if key in fx._cache:
        return fx._cache[key]
    bins = alpha.table_bins(table, names)
    n = len(bins)
    p = scratch.fresh()
    cooler.create_cooler(p, build.bins_df(bins), fx.frame(fx.pixvals(alpha.structured(n, True)[1][1], n)), columns=["count", "score"],
                         dtypes={"score": float}, ordered=True)
    if enc == "int":
        with h5py.File(p, "r+") as f:
            ids = f["bins/chrom"][:].astype(np.int32)
            del f["bins/chrom"]
            d = f["bins"].create_dataset("chrom", data=ids, dtype=np.int32)
            d.attrs["enum_path"] = "/chroms/name"
    fx._cache[key] = p
    return p


def _other_cooler():
    import cooler
    key = ("c18other",)
    if key not in fx._cache:
        p = scratch.fresh()
        cooler.create_cooler(p, build.bins_df([("zzOnly", 0, 2), ("zzOnly", 2, 4)]), fx.frame(fx.pixvals([(0, 1)], 2)), columns=["count", "score"],
                             dtypes={"score": float}, ordered=True)
        fx._cache[key] = p
    return fx._cache[key]


def options(names, k):
    nm = names[k]
    out = [("keep", nm), ("longer", nm + "_renamed_to_something_much_longer"), ("shorter", nm[-1] if len(nm) > 1 else "Z" + nm), ("fresh", "n%d" % k)]
    for j, other in enumerate(names):
        if j != k:
            out.append(("other", other))
    return out


def all_maps(names):
    maps = []
    for combo in itertools.product(*[options(names, k) for k in range(len(names))]):
        new = [c[1] for c in combo]
        if len(set(new)) != len(new):
            continue
        d = {o: nw for o, nw in zip(names, new) if o != nw}
        if not d:
            continue
        kinds = {c[0] for c in combo}
        maps.append((d, kinds))
    return maps


def units(tier):
    for si in range(len(SPECS)):
        for enc in ("enum", "int"):
            nmaps = len(all_maps(SPECS[si][1]))
            for lo in range(0, nmaps, 12):
                yield {"leg": "maps", "s": si, "enc": enc, "lo": lo, "hi": min(nmaps, lo + 12)}
            yield {"leg": "chain", "s": si, "enc": enc, "depth": 3 if tier == "thorough" else 2}
    # many contigs: the chromosome labels of the bin table are an HDF5 enum whose header has a size limit - with 3000 contigs the
    # enum fits under the short names and not under the long ones (and the other way round), so the renaming crosses that limit
    for direction in ("short-to-long", "long-to-short"):
        yield {"leg": "manycontigs", "direction": direction}


def snapshot(p):
    """everything that must NOT change: canonical form minus chroms/name and bins/chrom"""
    return h5ref.canon(p, skip=("/chroms/name", "/bins/chrom"))


def observe(clr):
    """name-independent observations of every chromosome (by index) and every bin-aligned region"""
    out = {"lengths": [int(x) for x in clr.chromsizes.tolist()]}
    bt = clr.bins()[:]
    import pandas as pd
    if pd.api.types.is_integer_dtype(bt["chrom"].dtype):
        out["bin_chrom_index"] = [int(c) for c in bt["chrom"]]
    else:
        out["bin_chrom_index"] = [list(clr.chromnames).index(str(c)) for c in bt["chrom"]]
    regs = {}
    for ci, nm in enumerate(clr.chromnames):
        edges = sorted({0} | {int(e) for c, e in zip(bt["chrom"].astype(str), bt["end"]) if c == nm})
        for a, b in itertools.combinations(edges, 2):
            ext = tuple(int(x) for x in clr.extent((nm, a, b)))
            f = clr.bins().fetch(f"{nm}:{a}-{b}")
            m = clr.matrix(balance=False).fetch((nm, a, b))
            regs[(ci, a, b)] = (ext, list(f.index), f["start"].tolist(), m.tolist())
        regs[(ci, "whole")] = (tuple(int(x) for x in clr.extent(nm)), clr.matrix(balance=False).fetch(nm).tolist())
    out["regions"] = regs
    return out


def check_after(R, inner, p, clr_same, before_snap, before_obs, old_names, want_names):
    import cooler
    snap = snapshot(p)
    if snap != before_snap:
        diff = [a for a in snap if a not in before_snap][:3]
        R.mismatch("something-other-than-names-changed", inner, f"{diff}")
    for which, clr in (("same-object", clr_same), ("reopened", cooler.Cooler(p))):
        try:
            if list(clr.chromnames) != want_names:
                R.mismatch("names!=renamed-in-original-order:" + which, inner, f"got={list(clr.chromnames)} want={want_names}")
                continue
            if list(clr.chromsizes.index) != want_names:
                R.mismatch("chromsizes-index:" + which, inner, f"{list(clr.chromsizes.index)}")
            ct = clr.chroms()[:]
            if ct["name"].tolist() != want_names:
                R.mismatch("chrom-table-names:" + which, inner, f"{ct['name'].tolist()}")
            bt = clr.bins()[:]
            labels = [str(x) for x in bt["chrom"]]
            if labels != [want_names[i] for i in before_obs["bin_chrom_index"]]:
                R.mismatch("bin-table-labels-not-renamed:" + which, inner, f"got={labels}")
            if hasattr(bt["chrom"], "cat") and list(bt["chrom"].cat.categories) != want_names:
                R.mismatch("bin-table-categories:" + which, inner, f"{list(bt['chrom'].cat.categories)}")
            obs = observe(clr)
            if obs != before_obs:
                bad = [k for k in before_obs["regions"] if obs["regions"].get(k) != before_obs["regions"][k]][:3]
                R.mismatch("lookup-under-new-name!=old-name-before:" + which, inner, f"differs at {bad} lengths={obs['lengths']}")
            for o in old_names:
                if o not in want_names:
                    try:
                        clr.extent(o)
                        R.mismatch("vanished-old-name-still-accepted:" + which, inner, o)
                    except Exception:
                        pass
        except Exception as e:
            R.mismatch("lookup-raises:" + type(e).__name__ + ":" + which, inner, f"{e!s:.200}")
    v = h5ref.validate(p)
    if v:
        R.mismatch("V:" + v[0], inner, f"{v}")


def _maps(R, unit, only):
    import cooler
    base = make(unit["s"], unit["enc"])
    names = SPECS[unit["s"]][1]
    maps = all_maps(names)[unit["lo"]:unit["hi"]]
    R.add("states")
    R.add("traces")
    R.cls("enc:" + unit["enc"])
    for q, (d, kinds) in enumerate(maps):
        inner = {"map": d}
        if only is not None and only != inner:
            continue
        R.order = (R.order[0], q)
        R.ev(1, 1)
        R.add("transitions")
        if "other" in kinds:
            R.cls("map:swap-or-cycle")
        if "longer" in kinds:
            R.cls("map:longer")
        if "shorter" in kinds:
            R.cls("map:shorter")
        if "keep" in kinds:
            R.cls("map:partial")
        p = scratch.fresh()
        shutil.copy(base, p)
        try:
            clr = cooler.Cooler(p)
            bs, bo = snapshot(p), observe(clr)
            early = (clr.bins(), clr.pixels(), clr.matrix(balance=False), clr.bins()[["start", "end"]])     # taken before the rename
            try:
                # the map is given with its entries in REVERSED table order (entries must be matched by key), and the very same dict
                # object is first offered to another cooler that has none of these chromosomes (a no-op there)
                dd = dict(reversed(list(d.items())))
                cooler.rename_chroms(cooler.Cooler(_other_cooler()), dd)
                cooler.rename_chroms(clr, dd)
            except Exception as e:
                R.mismatch("rename-raises:" + type(e).__name__, inner, f"{e!s:.200}")
                continue
            newn = [d.get(x, x) for x in names]
            check_after(R, inner, p, clr, bs, bo, names, newn)
            # selectors of the same object that were obtained before the rename answer name-based lookups with the new names too
            try:
                for ci, nm in enumerate(newn):
                    want = bo["regions"][(ci, "whole")]
                    b = early[0].fetch(nm)
                    px = early[1].fetch(nm)
                    mx = early[2].fetch(nm)
                    b2 = early[3].fetch(nm)
                    lo, hi = want[0]
                    if list(b.index) != list(range(lo, hi)) or list(b2.index) != list(range(lo, hi)) or mx.tolist() != want[1] or \
                            (len(px) and not set(px["bin1_id"].tolist()) <= set(range(lo, hi))):
                        R.mismatch("earlier-selector-lookup-under-new-name!=old-name-before", inner, f"chrom #{ci} {nm}: bins index {list(b.index)} want {lo}..{hi}")
                        break
            except Exception as e:
                R.mismatch("earlier-selector-lookup-raises:" + type(e).__name__, inner, f"{e!s:.200}")
        finally:
            scratch.rm(p)
    R.sample({"leg": "maps", "names": names, "maps": [m for m, _ in maps[:4]], "enc": unit["enc"]})


def _chain(R, unit, only):
    """BFS over chains of renamings: state = tuple of current names"""
    import cooler
    base = make(unit["s"], unit["enc"])
    names0 = SPECS[unit["s"]][1]
    R.add("traces")
    seen = {tuple(names0)}
    frontier = [([], tuple(names0))]
    nstate = 0
    for level in range(unit["depth"]):
        nxt = []
        for hist, cur in frontier:
            cur = list(cur)
            # sub-alphabet relative to the CURRENT names: swap first two, rotate all, lengthen first, shorten last, rename to a fresh name
            alph = [{cur[0]: cur[1], cur[1]: cur[0]}, {cur[k]: cur[(k + 1) % len(cur)] for k in range(len(cur))}, {cur[0]: cur[0] + "_x" * 9},
                    {cur[-1]: "q%d" % level}, {cur[0]: "fresh%d" % level, cur[-1]: cur[0]}]
            for ai, d in enumerate(alph):
                d = {o: nw for o, nw in d.items() if o != nw}
                want = [d.get(x, x) for x in cur]
                if not d or len(set(want)) != len(want):
                    continue
                h2 = hist + [ai]
                inner = {"chain": h2}
                if only is not None and only != inner and only.get("chain", [])[:len(h2)] != h2:
                    continue
                nstate += 1
                R.order = (R.order[0], nstate)
                R.ev(1, 1)
                R.add("transitions")
                R.cls("chain")
                p = scratch.fresh()
                shutil.copy(base, p)
                try:
                    clr_first = cooler.Cooler(p)          # opened BEFORE the history: its cached names are stale by the time it is used
                    clr = cooler.Cooler(p)
                    # replay the history on the same object
                    for dm in _replay_maps(names0, hist):
                        cooler.rename_chroms(clr, dict(dm))
                    if list(clr.chromnames) != cur:
                        R.mismatch("chain-replay-names", inner, f"got={list(clr.chromnames)} want={cur}")
                        continue
                    bs, bo = snapshot(p), observe(clr)
                    # every other chain: the last renaming goes through the object that was opened before the history was applied
                    # through another object (two handles on one file); 'immediately on the same object' is about the object given
                    target = clr_first if (hist and nstate % 2) else clr
                    if target is clr_first:
                        R.cls("chain:through-an-object-opened-earlier")
                    cooler.rename_chroms(target, dict(d))
                    check_after(R, inner, p, target, bs, bo, cur, want)
                except Exception as e:
                    R.mismatch("chain-raises:" + type(e).__name__, inner, f"{e!s:.200}")
                finally:
                    scratch.rm(p)
                if tuple(want) not in seen:
                    seen.add(tuple(want))
                    nxt.append((h2, tuple(want)))
        frontier = nxt
    R.c["states"] += len(seen)


def _replay_maps(names0, hist):
    cur = list(names0)
    out = []
    for level, ai in enumerate(hist):
        alph = [{cur[0]: cur[1], cur[1]: cur[0]}, {cur[k]: cur[(k + 1) % len(cur)] for k in range(len(cur))}, {cur[0]: cur[0] + "_x" * 9},
                {cur[-1]: "q%d" % level}, {cur[0]: "fresh%d" % level, cur[-1]: cur[0]}]
        d = {o: nw for o, nw in alph[ai].items() if o != nw}
        out.append(d)
        cur = [d.get(x, x) for x in cur]
    return out


def _manycontigs(R, unit, only):
    import cooler
    import pandas as pd
    nc = 3000
    short = ["c%04d" % k for k in range(nc)]
    long_ = [("scaffold_with_a_rather_long_name_%04d" % k) if k % 2 == 0 else short[k] for k in range(nc)]
    src, dst = (short, long_) if unit["direction"] == "short-to-long" else (long_, short)
    bins = pd.DataFrame({"chrom": pd.Categorical(np.repeat(src, 2), categories=src, ordered=True), "start": np.tile([0, 5], nc), "end": np.tile([5, 8], nc)})
    pix = pd.DataFrame({"bin1_id": [0, 0, 1, 2 * nc - 3, 2 * nc - 2], "bin2_id": [0, 3, 2 * nc - 1, 2 * nc - 2, 2 * nc - 1], "count": [1, 2, 3, 4, 5]})
    inner = {"direction": unit["direction"], "contigs": nc}
    R.add("states")
    R.add("traces")
    R.ev(1, 1)
    R.add("transitions")
    R.cls("manycontigs")
    p = scratch.fresh()
    try:
        cooler.create_cooler(p, bins, pix, ordered=True)
        with h5py.File(p, "r") as f:
            R.cls("manycontigs:enum-before" if h5py.check_dtype(enum=f["bins/chrom"].dtype) else "manycontigs:integer-before")
        clr = cooler.Cooler(p)
        before_snap = snapshot(p)
        probe = [0, 1, 2, nc // 2, nc - 2, nc - 1]
        before = {k: (tuple(int(x) for x in clr.extent(src[k])), clr.matrix(balance=False).fetch(src[k]).tolist(), clr.bins().fetch(src[k])["start"].tolist()) for k in probe}
        d = {a: b for a, b in zip(src, dst) if a != b}
        try:
            cooler.rename_chroms(clr, d)
        except Exception as e:
            R.mismatch("rename-raises:" + type(e).__name__, inner, f"{e!s:.200}")
            return
        with h5py.File(p, "r") as f:
            R.cls("manycontigs:enum-after" if h5py.check_dtype(enum=f["bins/chrom"].dtype) else "manycontigs:integer-after")
        if snapshot(p) != before_snap:
            R.mismatch("something-other-than-names-changed", inner, "")
        for which, c in (("same-object", clr), ("reopened", cooler.Cooler(p))):
            try:
                if list(c.chromnames) != dst:
                    R.mismatch("names!=renamed-in-original-order:" + which, inner, f"first differences {[(a, b) for a, b in zip(c.chromnames, dst) if a != b][:3]}")
                    continue
                bt = c.bins()[:]
                lab = bt["chrom"]
                labels = [dst[int(x)] for x in lab] if pd.api.types.is_integer_dtype(lab.dtype) else [str(x) for x in lab]
                want = [nm for nm in dst for _ in (0, 1)]
                if labels != want:
                    bad = [(q, a, b) for q, (a, b) in enumerate(zip(labels, want)) if a != b][:3]
                    R.mismatch("bin-table-labels-not-renamed:" + which, inner, f"(row, got, want) {bad}")
                for k in probe:
                    got = (tuple(int(x) for x in c.extent(dst[k])), c.matrix(balance=False).fetch(dst[k]).tolist(), c.bins().fetch(dst[k])["start"].tolist())
                    if got != before[k]:
                        R.mismatch("lookup-under-new-name!=old-name-before:" + which, {**inner, "chrom": k}, f"got={got} want={before[k]}")
                    if src[k] != dst[k]:
                        try:
                            c.extent(src[k])
                            R.mismatch("vanished-old-name-still-accepted:" + which, {**inner, "chrom": k}, src[k])
                        except Exception:
                            pass
            except Exception as e:
                R.mismatch("lookup-raises:" + type(e).__name__ + ":" + which, inner, f"{e!s:.200}")
        v = h5ref.validate(p)
        if v:
            R.mismatch("V:" + v[0], inner, f"{v}")
    finally:
        scratch.rm(p)


def run(unit, R, tier, only=None):
    if unit["leg"] == "manycontigs":
        _manycontigs(R, unit, only)
        return
    if unit["leg"] == "maps":
        _maps(R, unit, only)
    else:
        _chain(R, unit, only)
