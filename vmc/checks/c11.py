"""C11 — balancing depends on the data only, not on chunking or scheduling (E3 + E1)."""
from __future__ import annotations

import itertools

import numpy as np

from vmc import alpha, fixtures as fx, refbalance as rb
from vmc.checks import c10
from vmc.core import scratch
from vmc.core.rec import HarnessError
from vmc.seams import sched

ID = "C11"
TECHNIQUE = 'deviation-bounded stateless exploration of every completion order of every map call (iterative context bounding) + exhaustive chunk-size / map-kind enumeration against a dense reference model, on the real implementation'
LEVEL = "model_checking"
RULE = ("24 (cooler, option) points that converge quickly: (a) EVERY chunksize 1..nnz+1 and None; (b) map implementations: builtin "
        "lazy map, eager list map, VirtualPool.map / imap / imap_unordered (tasks on dill copies); (c) schedules: with 2, 3, 4 spans "
        "every map call of the run is a choice point whose alternatives are all k! completion orders (and lazy|eager evaluation), all "
        "executions with <= B deviating calls plus 'the same non-identity permutation at every call'; use_lock under VirtualLock "
        "(deadlock detection); one real multiprocess.Pool(2).imap_unordered conformance run; (d) visit-once: the spans handed to every "
        "map call and the spans of parallel.split(chunksize=c) for c=1..nnz+1 tile [0,nnz) exactly, and a gathered pipeline sees every "
        "pixel exactly once; (e) agreement with the dense reference procedure over an option product. Oracle: identical NaN pattern, "
        "weights within 1e-9 relative of the baseline run AND of ref_balance, scale/var within 1e-6, `converged` equal. Non-trivial: "
        ">=2 spans or a non-default map. Distinct by construction.")
EXTRA_LEGS = "dense-reference agreement also on coolers that store explicit zero counts (kind s6z), 3 tables x 3 modes x 48 option points."
BOUNDS = {"quick": "schedule deviation bound 1 on 6 points; ref agreement on 6 coolers x 144 option points",
          "thorough": "schedule deviation bound 2 (2 and 3 spans; bound 1 for 4 spans) on 8 points; ref agreement on 18 coolers x 144 points"}
ASSUMPTIONS = ["runs in which the reference sees a sweep with |var - tol| < 1e-6 tol are numerically undecidable (which sweep stops first) and set aside (counted)",
               "the documented procedure is the reference model with the implementation's diagonal convention (finding F14 is C10's) and cweights in trans mode (F15 is C10's)"]
EXPECT_CLASSES = {"*": ["chunksize", "map:virtual-imap_unordered", "schedule", "visit-once", "ref-agreement", "real-pool"]}

POINTS = [(ti, mat, core) for ti, mat in ((0, "full"), (1, "full"), (2, "full"), (1, "checker"), (2, "mid_empty"), (0, "sparse3"))
          for core in (0, 1, 4, 8)]     # 24 points: CORE indices gw/gw/cis/trans


def units(tier):
    th = tier == "thorough"
    for p in range(len(POINTS)):
        yield {"leg": "chunksize", "p": p}
        yield {"leg": "maps", "p": p}
    for p in (range(0, 24, 3) if th else (0, 5, 10, 14, 19, 20)):
        for k in (2, 3):
            for kind in ("imap_unordered", "imap", "map+lock"):
                yield {"leg": "sched", "p": p, "spans": k, "kind": kind}
    for p in ((0, 5, 10, 14) if th else (5, 14)):
        yield {"leg": "sched", "p": p, "spans": 4, "kind": "imap_unordered"}
    for p in (0, 6, 11):
        yield {"leg": "real-pool", "p": p}
    for ti in range(3):
        for mat in (("full", "checker", "mid_empty", "sparse3", "off1", "corners") if th else ("full", "sparse3")):
            yield {"leg": "visit", "t": ti, "mat": mat}
            for mode in c10.MODES:
                yield {"leg": "ref", "t": ti, "mat": mat, "mode": mode}
    yield {"leg": "cli"}
    for mode in c10.MODES:
        yield {"leg": "sameuri", "mode": mode}
    # a cooler that stores explicit zero counts (a stored zero is no contact): agreement with the dense reference for every option point
    for ti in range(3):
        for mode in c10.MODES:
            yield {"leg": "ref", "t": ti, "mat": "full", "mode": mode, "kind": "s6z"}


def _sameuri(R, mode, only):
    """balance, re-create the file at the SAME URI with a different bin table / matrix, balance again: the second run must
    depend on the second data only"""
    import cooler
    from vmc import build
    R.add("states")
    R.add("traces")
    p = scratch.fresh()
    try:
        seq = [(0, "full"), (1, "full"), (2, "full"), (1, "checker"), (2, "mid_empty"), (1, "full"), (0, "sparse3")]
        for step, (ti, mat) in enumerate(seq):
            inner = {"step": step, "t": ti, "mat": mat, "mode": mode}
            R.order = (R.order[0], step)
            R.ev(1, 1 if step else 0)
            R.add("transitions", 2)
            R.cls("sameuri")
            t, n, cells = c10.cooler_spec("s6", ti, mat)
            bins = alpha.table_bins(t, "chr")
            pix = {c: alpha.value(n, c[0], c[1]) for c in cells}
            build.create(p, bins, pix, True)
            A = np.zeros((n, n))
            for (i, j), v in pix.items():
                A[i, j] = A[j, i] = v
            chrom_of = [ci for ci, c in enumerate(t) for _ in c]
            o = c10.base_opts(mode, 1, 0, 0)
            o["max_iters"] = 30
            try:
                w, st = call(cooler.Cooler(p), o, chunksize=5)
            except Exception as e:
                R.mismatch("raises:" + type(e).__name__, inner, f"{e!s:.200}")
                continue
            vs_ref(R, inner, A, chrom_of, o, w, st)
    finally:
        scratch.rm(p)


def point(p):
    ti, mat, core = POINTS[p]
    clr, A, chrom_of = c10.get_cooler("s6", ti, mat)
    mode, igd, mn, mad = c10.CORE[core]
    o = c10.base_opts(mode, igd, mn, mad)
    o["tol"] = 1e-3          # fewer sweeps per run: this check is about chunking and scheduling, not about the tolerance
    return clr, A, chrom_of, o


def call(clr, o, **kw):
    import cooler
    args = dict(cis_only=o["mode"] == "cis", trans_only=o["mode"] == "trans", ignore_diags=o["ignore_diags"], min_nnz=o["min_nnz"],
                min_count=o["min_count"], mad_max=o["mad_max"], tol=o["tol"], max_iters=o["max_iters"], rescale_marginals=o["rescale"],
                chunksize=None)
    args.update(kw)
    with np.errstate(all="ignore"):
        return cooler.balance_cooler(clr, **args)


def same(R, clause, inner, w, st, w0, st0, rtol=1e-9):
    w, w0 = np.asarray(w, float), np.asarray(w0, float)
    if not np.array_equal(np.isnan(w), np.isnan(w0)):
        R.mismatch(clause + ":nan-pattern", inner, f"got={w.tolist()} base={w0.tolist()}")
        return False
    fin = ~np.isnan(w0)
    if fin.any() and np.max(np.abs(w[fin] - w0[fin]) / np.abs(w0[fin])) > rtol:
        R.mismatch(clause + ":weights", inner, f"got={w.tolist()} base={w0.tolist()}")
        return False
    for key in ("scale", "var"):
        a, b = np.atleast_1d(np.asarray(st[key], float)), np.atleast_1d(np.asarray(st0[key], float))
        if a.shape != b.shape or not np.allclose(np.nan_to_num(a), np.nan_to_num(b), rtol=1e-6, atol=1e-12) or not np.array_equal(np.isnan(a), np.isnan(b)):
            R.mismatch(clause + ":" + key, inner, f"got={a.tolist()} base={b.tolist()}")
            return False
    if not np.array_equal(np.atleast_1d(st["converged"]), np.atleast_1d(st0["converged"])):
        R.mismatch(clause + ":converged", inner, f"got={st['converged']} base={st0['converged']}")
        return False
    return True


def undecidable(A, chrom_of, o, x0=None, blacklist=None):
    oo = dict(o)
    oo["x0"], oo["blacklist"] = x0, blacklist
    _, _, _, info = rb.ref_balance(A, chrom_of, double_diag=True, **oo)
    tol = o["tol"]
    return any(abs(v - tol) < 1e-6 * tol for vs in info["sweep_vars"] for v in vs)


def vs_ref(R, inner, A, chrom_of, o, w, st, x0=None, blacklist=None):
    oo = dict(o)
    oo["x0"], oo["blacklist"] = x0, blacklist
    ref, rs, rv, info = rb.ref_balance(A, chrom_of, double_diag=True, **oo)
    tol = o["tol"]
    if any(abs(v - tol) < 1e-6 * tol for vs in info["sweep_vars"] for v in vs):
        R.cls("undecidable(var~tol)")
        return
    if info["near_cutoff"]:
        R.cls("undecidable(mad-tie)")
        return
    st_ref = {"scale": rs, "var": rv, "converged": np.asarray(rv) < tol}
    same(R, "!=dense-reference-procedure", inner, w, st, ref, st_ref)


def _chunksize(R, p, only):
    clr, A, chrom_of, o = point(p)
    nnz = int(clr.info["nnz"])
    R.add("states")
    R.add("traces")
    w0, st0 = call(clr, o)
    vs_ref(R, {"p": p, "chunksize": None}, A, chrom_of, o, w0, st0)
    for cs in list(range(1, nnz + 2)):
        inner = {"p": p, "chunksize": cs}
        if only is not None and only != inner:
            continue
        R.order = (R.order[0], cs)
        R.ev(1, 1 if cs < nnz else 0)
        R.add("transitions")
        R.cls("chunksize")
        try:
            w, st = call(clr, o, chunksize=cs)
        except Exception as e:
            R.mismatch("raises:" + type(e).__name__, inner, f"{e!s:.200}")
            continue
        same(R, "depends-on-chunksize", inner, w, st, w0, st0)
    w1, st1 = call(clr, o)
    same(R, "repeated-run-differs", {"p": p}, w1, st1, w0, st0, rtol=0.0)


def _maps(R, p, only):
    clr, A, chrom_of, o = point(p)
    nnz = int(clr.info["nnz"])
    R.add("states")
    R.add("traces")
    w0, st0 = call(clr, o)
    kk = 0
    for cs in (2, max(1, nnz // 3)):
        for name in ("builtin", "eager-list", "virtual-map", "virtual-imap", "virtual-imap_unordered", "thread-pool-map"):
            kk += 1
            inner = {"p": p, "chunksize": cs, "map": name}
            if only is not None and only != inner:
                continue
            R.order = (R.order[0], kk)
            R.ev(1, 1)
            R.add("transitions")
            R.cls("map:" + name)
            sched.VirtualPool.choices = None
            sched.VirtualPool.mon = None
            pool = sched.VirtualPool(2)
            tpe = None
            if name == "thread-pool-map":
                # real threads sharing the interpreter (an ordered parallel map; conformance run, not explored)
                import concurrent.futures
                tpe = concurrent.futures.ThreadPoolExecutor(3)
            mp = {"builtin": map, "eager-list": lambda f, xs: list(map(f, list(xs))), "virtual-map": pool.map,
                  "virtual-imap": pool.imap, "virtual-imap_unordered": pool.imap_unordered,
                  "thread-pool-map": (tpe.map if tpe else None)}[name]
            try:
                w, st = call(clr, o, chunksize=cs, map=mp)
            except Exception as e:
                R.mismatch("raises:" + type(e).__name__, inner, f"{e!s:.200}")
                continue
            finally:
                if tpe is not None:
                    tpe.shutdown(wait=True)
            same(R, "depends-on-map-implementation", inner, w, st, w0, st0)


class _Fixed(sched.Choices):
    """the same non-identity alternative at every choice point"""

    def __init__(self, frac):
        super().__init__()
        self.frac = frac

    def choose(self, n, label=""):
        c = min(n - 1, max(1, int(self.frac * (n - 1)))) if n > 1 else 0
        self.trace.append((n, c, label))
        return c


def _sched(R, p, k, tier, only, kinds=("imap_unordered", "imap", "map+lock")):
    import cooler.parallel as Pm
    bound = 2 if (tier == "thorough" and k <= 3) else 1      # 4 spans: 24 orders x lazy|eager per call - deviation bound 1 in both tiers
    clr, A, chrom_of, o = point(p)
    o["max_iters"] = 8 if k <= 2 or tier != "thorough" else 5        # bounds the number of choice points (map calls) of one execution whether or not it converges
    nnz = int(clr.info["nnz"])
    cs = -(-nnz // k)
    R.add("states")
    R.add("traces")
    w0, st0 = call(clr, o)
    if not hasattr(Pm, "lock"):
        raise HarnessError("seam missing: cooler.parallel.lock")

    for kind in kinds:
        def run(ch):
            mon = sched.Monitor()
            vl = sched.VirtualLock(mon)
            saved = Pm.lock
            Pm.lock = vl
            sched.VirtualPool.choices = ch
            sched.VirtualPool.mon = None
            pool = sched.VirtualPool(3)
            mp = {"imap_unordered": pool.imap_unordered, "imap": pool.imap, "map+lock": pool.map}[kind]
            try:
                return call(clr, o, chunksize=cs, map=mp, use_lock=(kind == "map+lock")), None, vl
            except sched.Deadlock:
                return None, "deadlock", vl
            except Exception as e:
                return None, f"{type(e).__name__}: {e!s:.200}", vl
            finally:
                Pm.lock = saved
                sched.VirtualPool.choices = None

        runs = list(sched.explore(run, bound if kind == "imap_unordered" else min(bound, 1)))
        runs += [(c, run(c)) for c in (_Fixed(1.0), _Fixed(0.5))]
        for q, (ch, (res, err, vl)) in enumerate(runs):
            choices = [c for (_, c, _) in ch.trace]
            inner = {"p": p, "spans": k, "map": kind, "choices": choices}
            if only is not None and only != inner:
                continue
            R.order = (R.order[0], q)
            R.ev(1, 1 if any(choices) else 0)
            R.add("transitions")
            R.add("schedules")
            R.cls("schedule")
            R.cls("schedule:" + kind)
            if err:
                R.mismatch("schedule:" + ("deadlock" if err == "deadlock" else "raises"), inner, err)
                continue
            if vl.held:
                R.mismatch("schedule:lock-held-after-return", inner, "")
            if kind == "map+lock" and vl.nacq == 0:
                R.mismatch("use_lock-ignored", inner, "no acquisition of cooler.parallel.lock observed")
            w, st = res
            same(R, "depends-on-completion-order", inner, w, st, w0, st0)
    R.sample({"leg": "sched", "point": POINTS[p], "spans": k, "bound": bound,
              "choice points": "every map call (filter passes + one per sweep): k! completion orders x lazy|eager"})


def _realpool(R, p, only):
    import multiprocess
    clr, A, chrom_of, o = point(p)
    R.add("states")
    R.add("traces")
    R.ev(1, 1)
    R.add("transitions")
    R.cls("real-pool")
    w0, st0 = call(clr, o)
    pool = multiprocess.Pool(2)
    try:
        w, st = call(clr, o, chunksize=3, map=pool.imap_unordered)
        same(R, "real-pool-differs", {"p": p}, w, st, w0, st0)
    except Exception as e:
        R.mismatch("real-pool-raises:" + type(e).__name__, {"p": p}, f"{e!s:.200}")
    finally:
        pool.terminate()


def _visit(R, ti, mat, only):
    import cooler
    from cooler.parallel import split
    clr, A, chrom_of = c10.get_cooler("s6", ti, mat)
    nnz = int(clr.info["nnz"])
    pix = clr.pixels()[:]
    allpix = list(zip(pix["bin1_id"].tolist(), pix["bin2_id"].tolist()))
    R.add("states")
    R.add("traces")

    def tiles(spans, lo, hi):
        """clipped spans must tile [lo, hi) exactly, each row in exactly one span"""
        cover = np.zeros(nnz + 1, dtype=int)
        for a, b in spans:
            a2, b2 = max(int(a), 0), min(int(b), nnz)
            if b2 > a2:
                cover[a2:b2] += 1
        return bool(np.all(cover[lo:hi] == 1) and cover[:lo].sum() == 0 and cover[hi:nnz].sum() == 0)

    for cs in range(1, nnz + 2):
        inner = {"t": ti, "mat": mat, "chunksize": cs}
        if only is not None and only.get("chunksize") != cs:
            continue
        R.order = (R.order[0], cs)
        R.ev(1, 1 if cs < nnz else 0)
        R.add("transitions", 2)
        R.cls("visit-once")
        try:
            seen = split(clr, chunksize=cs).pipe(lambda chunk: list(zip(chunk["pixels"]["bin1_id"].tolist(), chunk["pixels"]["bin2_id"].tolist()))).gather()
            flat = [x for part in seen for x in part]
            if flat != allpix:
                R.mismatch("split-pipeline-does-not-visit-every-pixel-once", inner, f"saw={flat} stored={allpix}")
            # repeated runs: the same pipeline object executed again (gather, then reduce, then iteration), a second pipeline
            # derived from the same base, and prepare() - every execution visits every pixel once
            f = lambda chunk: list(zip(chunk["pixels"]["bin1_id"].tolist(), chunk["pixels"]["bin2_id"].tolist()))  # noqa: E731
            base = split(clr, chunksize=cs)
            p1 = base.pipe(f)
            runs = {"gather": [x for part in p1.gather() for x in part],
                    "gather-again": [x for part in p1.gather() for x in part],
                    "reduce": p1.reduce(lambda acc, part: acc + part, []),
                    "iterate": [x for part in p1 for x in part],
                    "second-pipeline-from-the-same-base": [x for part in base.pipe(f).gather() for x in part],
                    "two-stages": [x for part in base.pipe(f).pipe(lambda part: [(b, a) for a, b in part]).gather() for x in part]}
            runs["two-stages"] = [(a, b) for b, a in runs["two-stages"]]
            pp = split(clr, chunksize=cs).prepare(lambda chunk: len(chunk["pixels"]["bin1_id"])).pipe(lambda chunk, data: (data, f(chunk)))
            got = pp.gather()
            runs["prepare"] = [x for k, part in got for x in part]
            if any(k != len(part) for k, part in got):
                R.mismatch("split-pipeline-prepare-result-not-passed-along", inner, f"{got}")
            # chunks that are still referenced after the next one has been fetched (what an eager map, a prefetching imap or any
            # caller that collects results does): every collected chunk keeps its OWN span
            raw = split(clr, chunksize=cs).gather()
            runs["raw-chunks-collected"] = [x for ch in raw for x in f(ch)]
            kept = split(clr, chunksize=cs).pipe(lambda chunk: chunk).gather()
            runs["stage-returns-its-chunk"] = [x for ch in kept for x in f(ch)]
            for how, flat2 in runs.items():
                if flat2 != allpix:
                    R.mismatch("split-pipeline-does-not-visit-every-pixel-once:" + how, inner, f"saw={flat2} stored={allpix}")
            # spans handed to every map call of a balancing run
            for mode in c10.MODES:
                log = []

                def rec_map(f, keys):
                    keys = list(keys)
                    log.append(keys)
                    return map(f, keys)
                o = c10.base_opts(mode, 1, 0, 0)
                o["max_iters"] = 3
                call(clr, o, chunksize=cs, map=rec_map)
                offs = clr._load_dset("indexes/bin1_offset")
                coffs = clr._load_dset("indexes/chrom_offset")
                scopes = [(0, nnz)] + [(int(offs[a]), int(offs[b])) for a, b in zip(coffs[:-1], coffs[1:])]
                for spans in log:
                    if not any(tiles(spans, lo, hi) for lo, hi in scopes):
                        R.mismatch("map-call-spans-do-not-tile-the-pixel-table", {**inner, "mode": mode}, f"spans={[(int(a), int(b)) for a, b in spans]} nnz={nnz}")
                        break
        except Exception as e:
            R.mismatch("raises:" + type(e).__name__, inner, f"{e!s:.200}")


def _ref(R, unit, only):
    clr, A, chrom_of = c10.get_cooler(unit.get("kind", "s6"), unit["t"], unit["mat"])
    R.add("states")
    R.add("traces")
    kk = 0
    for igd, mn, mad in itertools.product((0, 1, 2, 3), (0, 1, 2, 3), (0, 1, 3)):
        kk += 1
        inner = {"ignore_diags": igd, "min_nnz": mn, "mad_max": mad}
        if only is not None and only != inner:
            continue
        R.order = (R.order[0], kk)
        R.ev(1, 1)
        R.add("transitions")
        R.cls("ref-agreement")
        o = c10.base_opts(unit["mode"], igd, mn, mad)
        o["max_iters"] = 30
        try:
            w, st = call(clr, o, chunksize=4 if kk % 2 else None)
        except Exception as e:
            R.mismatch("raises:" + type(e).__name__, inner, f"{e!s:.200}")
            continue
        vs_ref(R, inner, A, chrom_of, o, w, st)


def _cli(R, only):
    """`cooler balance` with -p 2 (real pool, imap_unordered) and without, stored weights identical"""
    import cooler
    import shutil
    from vmc import build
    R.add("states")
    R.add("traces")
    for q, (ti, mat) in enumerate(((1, "full"), (2, "checker"))):
        clr, A, chrom_of = c10.get_cooler("s6", ti, mat)
        res = []
        for nproc, cs in ((1, 10 ** 6), (2, 3), (1, 2)):
            inner = {"t": ti, "mat": mat, "nproc": nproc, "chunksize": cs}
            R.ev(1, 1)
            R.add("transitions")
            R.cls("cli")
            p = scratch.fresh()
            shutil.copy(clr.filename, p)
            code, so, exc = build.cli(["balance", "-p", nproc, "-c", cs, "--min-nnz", 1, "--mad-max", 0, "--ignore-diags", 1, p])
            if code != 0 or exc is not None:
                R.mismatch("balance-cli-fails", inner, f"code={code} exc={exc!r}")
                scratch.rm(p)
                continue
            w = cooler.Cooler(p).bins()["weight"][:].values
            res.append((inner, w))
            scratch.rm(p)
        o = c10.base_opts("gw", 1, 1, 0)
        o["max_iters"] = 200
        w0, st0 = call(clr, o)
        for inner, w in res:
            if not np.array_equal(np.isnan(w), np.isnan(w0)) or not np.allclose(np.nan_to_num(w), np.nan_to_num(w0), rtol=1e-9, atol=0):
                R.mismatch("balance-cli-differs-from-api", inner, f"cli={w.tolist()} api={w0.tolist()}")
        # --ignore-dist D is documented as: ignore max(--ignore-diags, ceil(D / binsize)) diagonals (bin size 1 bp here)
        for igd, dist in ((2, 1), (1, 3), (2, 2), (3, 1), (1, 1), (0, 2)):
            inner = {"t": ti, "mat": mat, "ignore_diags": igd, "ignore_dist": dist}
            R.ev(1, 1)
            R.add("transitions")
            R.cls("cli")
            p = scratch.fresh()
            shutil.copy(clr.filename, p)
            code, so, exc = build.cli(["balance", "--min-nnz", 1, "--mad-max", 0, "--ignore-diags", igd, "--ignore-dist", dist, p])
            if code != 0 or exc is not None:
                R.mismatch("balance-cli-fails", inner, f"code={code} exc={exc!r}")
                scratch.rm(p)
                continue
            w = cooler.Cooler(p).bins()["weight"][:].values
            scratch.rm(p)
            o2 = c10.base_opts("gw", max(igd, dist), 1, 0)
            o2["max_iters"] = 200
            w2, _ = call(clr, o2)
            if not np.array_equal(np.isnan(w), np.isnan(w2)) or not np.allclose(np.nan_to_num(w), np.nan_to_num(w2), rtol=1e-9, atol=0):
                R.mismatch("balance-cli --ignore-dist differs-from-api", inner, f"cli={w.tolist()} api(ignore_diags={max(igd, dist)})={w2.tolist()}")


def seams():
    import cooler.parallel as Pm
    if not hasattr(Pm, "lock") or not hasattr(Pm, "split"):
        raise HarnessError("seam missing: cooler.parallel.lock/split")


def run(unit, R, tier, only=None):
    leg = unit["leg"]
    if leg == "chunksize":
        _chunksize(R, unit["p"], only)
    elif leg == "maps":
        _maps(R, unit["p"], only)
    elif leg == "sched":
        _sched(R, unit["p"], unit["spans"], tier, only, kinds=(unit["kind"],))
    elif leg == "real-pool":
        _realpool(R, unit["p"], only)
    elif leg == "visit":
        _visit(R, unit["t"], unit["mat"], only)
    elif leg == "ref":
        _ref(R, unit, only)
    elif leg == "cli":
        _cli(R, only)
    elif leg == "sameuri":
        _sameuri(R, unit["mode"], only)
    else:
        raise ValueError(leg)
