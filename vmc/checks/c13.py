"""C13 — invalid input or a failed write never yields a cooler nor harms its neighbours (E4: fault enumeration)."""
from __future__ import annotations

import os
import shutil

import h5py
import numpy as np
import pandas as pd

from vmc import alpha, build, fixtures as fx, h5ref
from vmc.core import scratch
from vmc.seams.sched import Fault, H5Hook

ID = "C13"
TECHNIQUE = 'exhaustive single-fault enumeration: one injected exception at every h5py call of the write path (call log of the fault-free run), every invalid-record position, every iterator-failure position, on the real implementation'
LEVEL = "fault_enumeration"
RULE = ("valid streams of m<=3 chunks of 1-2 pixels; (a) one invalid record of each kind (bin id = n, bin id = -1, lower-triangle pixel in "
        "symmetric mode, duplicate of a pixel of the same chunk with the same and with a different value) inserted at EVERY chunk index and EVERY position inside the chunk; (b) an "
        "exception raised by the input iterator before EVERY chunk index 0..m; (c) the h5py call log of the fault-free run has N calls "
        "(file opens, group/dataset creation, resizes, slice writes, attribute writes, link creation, deletions): N runs inject an OSError "
        "at call k = 1..N; destinations: new file, new group in a file holding two other collections + a foreign group, an existing empty "
        "non-root group, the root of a file whose root is not a cooler; producers: create_cooler ordered and unordered, merge_coolers, "
        "coarsen_cooler, `cooler load` with a bad line at every line number. Oracle: invalid input always raises; afterwards the "
        "destination is not recognised / listed / openable as a cooler unless it passes V and reads as the COMPLETE input; every other "
        "object of the file is bit-identical to before; the file still opens. Non-trivial: every case (each is a distinct fault point or "
        "invalid-record position). Distinct by construction.")
EXTRA_LEGS = 'scool: every h5py call (about 190) of a 3-cell create_scool, every invalid-record kind in every chunk of every cell, iterator failure before every chunk of every cell - each recognised cell complete, finished cells stay recognised; invalid records also with uint32/uint16/int32/uint64 id columns.' + " invalid records also in streams that carry a user-defined value column (columns=['count','score'])."
BOUNDS = {"quick": "3 streams; all 4 destinations; every fault point of 5 producers; single-cell file of 3 cells: every h5py call of create_scool (about 190), every invalid-record kind in every chunk of every cell, iterator failure before every chunk of every cell (each recognised cell must be complete; a cell finished earlier stays recognised)", "thorough": "6 streams; both storage modes for faults"}
ASSUMPTIONS = ["faults are Python exceptions raised at the h5py API boundary; a killed process / torn HDF5 metadata flush is a property of libhdf5 and not explored",
               "what is left INSIDE the failed destination group is not judged"]
EXPECT_CLASSES = {"*": ["invalid:stream-with-extra-column", "invalid:idtype-uint32", "invalid:idtype-uint16", "scool:io-fault", "scool:invalid", "scool:iterfail", "invalid:bin-too-large", "invalid:negative-bin", "invalid:lower-triangle", "invalid:duplicate", "invalid:duplicate-other-value", "iterator-failure",
                        "io-fault", "dest:new-file", "dest:new-group", "dest:empty-group", "dest:root", "fault-after-format-attr"]}

BINS = alpha.table_bins(((2, 2), (2, 2)), "chr")
NB = 4
STREAMS = [
    [[(0, 0, 1), (0, 2, 5)], [(1, 1, 2)], [(2, 3, 4)]],
    [[(0, 1, 3)], [(1, 1, 2), (1, 3, 7)]],
    [[(0, 0, 9)]],
    [[(0, 3, 1)], [(1, 2, 2)], [(3, 3, 3)]],
    [[(0, 0, 1), (0, 1, 2)], [(0, 2, 3), (0, 3, 4)]],
    [[(1, 1, 1), (2, 2, 2)], [(3, 3, 3)]],
]
DESTS = ["new-file", "new-group", "empty-group", "root"]
# destinations that are a LINK to a neighbouring collection (/n1): creation there replaces the link, the neighbour stays what it was.
# Such a destination did hold a cooler, so only the neighbour clause of the oracle applies.
LINK_DESTS = ["over-hard-link", "over-soft-link"]
NEIGHBOUR_SKIP = {"new-file": None, "new-group": "/new", "empty-group": "/emptygrp", "root": "/", "over-hard-link": "/lnk", "over-soft-link": "/lnk"}


def px(rows, idt=np.int64):
    return pd.DataFrame({"bin1_id": np.array([r[0] for r in rows], dtype=idt), "bin2_id": np.array([r[1] for r in rows], dtype=idt),
                         "count": np.array([r[2] for r in rows], dtype=np.int64)})


_base = {}


def base_file():
    """file with two other collections (root-level group and nested), a foreign group with attributes, an empty group, a custom attr"""
    import cooler
    key = os.getpid()
    if key in _base and os.path.exists(_base[key]):
        return _base[key]
    p = os.path.join(scratch.sub("c13base"), f"base{key}.cool")
    bdf = build.bins_df(BINS)
    cooler.create_cooler(p + "::/n1", bdf, px([(0, 0, 1), (1, 2, 3)]), ordered=True)
    cooler.create_cooler(p + "::/n2/deep", bdf, px([(0, 3, 7)]), ordered=True, mode="a")
    with h5py.File(p, "r+") as f:
        g = f.create_group("foreign")
        g.attrs["x"] = 1
        g.create_dataset("d", data=np.arange(3))
        f.create_group("emptygrp")
        f.attrs["custom"] = "keep"
    _base[key] = p
    return p


def prepare(dest, workdir):
    """-> (file path, dest uri, mode, neighbours canon before)"""
    f = os.path.join(workdir, "w.cool")
    if os.path.exists(f):
        os.remove(f)
    if dest == "new-file":
        return f, f, "w", None
    shutil.copy(base_file(), f)
    grp = NEIGHBOUR_SKIP[dest]
    if dest in LINK_DESTS:
        with h5py.File(f, "r+") as h:
            if dest == "over-hard-link":
                h["/lnk"] = h["/n1"]
            else:
                h["/lnk"] = h5py.SoftLink("/n1")
    return f, f + "::" + grp, "a", neighbours(f, dest)


def neighbours(f, dest):
    if dest == "new-file":
        return None
    if dest == "root":
        items = h5ref.canon(f, skip=("/chroms", "/bins", "/pixels", "/indexes"))
        return [it for it in items if it[0] != "/"]
    return h5ref.canon(f, skip=(NEIGHBOUR_SKIP[dest],))


def after(R, inner, dest, f, uri, before, complete_pix, raised, must_raise, symm=True):
    """the oracle, evaluated after a run that was disturbed"""
    import cooler
    from cooler import fileops
    if must_raise and not raised:
        R.mismatch("invalid-input-not-rejected", inner, "the call returned normally")
    if not os.path.exists(f):
        if dest != "new-file":
            R.mismatch("file-vanished", inner, "")
        return
    try:
        with h5py.File(f, "r"):
            pass
    except Exception as e:
        R.mismatch("file-does-not-open", inner, f"{type(e).__name__}: {e!s:.100}")
        return
    grp = uri.partition("::")[2] or "/"
    try:
        rec = fileops.is_cooler(uri)
    except Exception as e:
        R.mismatch("is_cooler-raises", inner, f"{type(e).__name__}: {e!s:.100}")
        rec = False
    try:
        listed = grp in fileops.list_coolers(f)
    except Exception as e:
        R.mismatch("list_coolers-raises", inner, f"{type(e).__name__}: {e!s:.100}")
        listed = False
    if (rec or listed) and dest not in LINK_DESTS:
        # recognised => complete
        R.cls("recognised-after-disturbance")
        # the statement is about stops "at any chunk"; a fault that lands between two attribute writes of the final update (after the
        # format attribute) may leave trailing attributes (format-version, format-url) unset: only those two are tolerated
        v = [c for c in h5ref.validate(f, grp) if c not in ("V:attr-missing:format-version", "V:attr-missing:format-url")]
        ok = not v
        if ok and complete_pix is not None:
            try:
                clr = cooler.Cooler(uri)
                df = clr.pixels()[:]
                ok = {(a, b): c for a, b, c in zip(df["bin1_id"].tolist(), df["bin2_id"].tolist(), df["count"].tolist())} == complete_pix
                ok = ok and int(clr.info["nnz"]) == len(complete_pix)
            except Exception:
                ok = False
        if not ok or complete_pix is None:
            R.mismatch("incomplete-collection-recognised-as-cooler", inner, f"is_cooler={rec} listed={listed} V={v}")
    if before is not None:
        now = neighbours(f, dest)
        if now != before:
            diff = [a for a in now if a not in before][:3] + [b for b in before if b not in now][:3]
            R.mismatch("neighbour-collection-or-foreign-object-changed", inner, f"{diff}")


def units(tier):
    th = tier == "thorough"
    ns = 6 if th else 3
    for s in range(ns):
        for dest in DESTS + LINK_DESTS:
            for producer in ("ordered", "unordered"):
                if dest in LINK_DESTS and s and not th:
                    continue
                yield {"leg": "invalid", "stream": s, "dest": dest, "producer": producer}
                yield {"leg": "iterfail", "stream": s, "dest": dest, "producer": producer}
    # square storage: out-of-range ids and duplicates must be rejected there too (no upper-triangle check to fall back on)
    for s in range(ns if th else 2):
        for producer in ("ordered", "unordered"):
            yield {"leg": "invalid", "stream": s, "dest": "new-group", "producer": producer, "symm": False}
    # the same invalid records with the bin-id columns in other integer dtypes (unsigned ones cannot hold the negative id: skipped there)
    for idt in ("uint32", "uint16", "int32", "uint64"):
        for producer in ("ordered", "unordered"):
            yield {"leg": "invalid", "stream": 0 if producer == "ordered" else 1, "dest": "new-group", "producer": producer, "idtype": idt}
    # the same invalid records in streams that carry a second, user-defined value column (columns=["count", "score"])
    for producer in ("ordered", "unordered"):
        for s_ in (0, 1):
            yield {"leg": "invalid", "stream": s_, "dest": "new-group", "producer": producer, "extra_column": True}
    yield {"leg": "bigdup"}
    for s in range(ns if th else 2):
        for dest in DESTS:
            for producer in ("ordered", "unordered", "merge", "coarsen"):
                yield {"leg": "iofault", "stream": s, "dest": dest, "producer": producer, "symm": True}
                if th:
                    yield {"leg": "iofault", "stream": s, "dest": dest, "producer": producer, "symm": False}
    for dest in ("new-file", "new-group"):
        yield {"leg": "load", "dest": dest}
    for dest in ("new-file", "new-group"):
        yield {"leg": "mapfail", "dest": dest}
    # single-cell files: one append-create per cell; a stop inside cell k must leave cell k unrecognised (or complete) and every
    # cell finished before it complete
    for kind in ("iofault", "invalid", "iterfail"):
        yield {"leg": "scool", "kind": kind}


def _create(uri, chunks, producer, mode, symm=True, **kw):
    import cooler
    cooler.create_cooler(uri, build.bins_df(BINS), iter(chunks) if not callable(chunks) else chunks(), ordered=(producer == "ordered"),
                         mode=mode, symmetric_upper=symm, **kw)


def _invalid(R, unit, only):
    stream = STREAMS[unit["stream"]]
    dest, producer = unit["dest"], unit["producer"]
    symm = unit.get("symm", True)
    idt = np.dtype(unit.get("idtype", "int64"))
    wd = scratch.sub(f"c13_{os.getpid()}")
    R.add("states")
    R.add("traces")
    kk = 0
    for kind in ("bin-too-large", "negative-bin", "lower-triangle", "duplicate", "duplicate-other-value"):
        if kind == "lower-triangle" and not symm:
            continue        # a lower-triangle pixel is valid in square storage
        if kind == "negative-bin" and idt.kind == "u":
            continue
        for ci, chunk in enumerate(stream):
            for pos in range(len(chunk) + 1):
                # side: which bin id is bad; for the duplicate kinds: WHICH record of the chunk is repeated at position pos - next to
                # its original (side 0) or anywhere else in the chunk (side = 1 + index of the record)
                sides = (0, 1) if kind in ("bin-too-large", "negative-bin") else (0,)
                if kind in ("duplicate", "duplicate-other-value"):
                    sides = (0,) + tuple(1 + q for q in range(len(chunk)) if q not in (pos - 1, pos, min(pos, len(chunk) - 1)))
                for side in sides:
                    kk += 1
                    inner = {"kind": kind, "chunk": ci, "pos": pos, "side": side}
                    if only is not None and only != inner:
                        continue
                    if kind == "bin-too-large":
                        bad = (NB, NB, 1) if False else ((0, NB, 1) if side else (NB, NB, 1))
                    elif kind == "negative-bin":
                        bad = (-1, 2, 1) if side == 0 else (0, -1, 1)
                    elif kind == "lower-triangle":
                        bad = (3, 1, 1)
                    elif kind == "duplicate":
                        bad = chunk[min(pos, len(chunk) - 1) if side == 0 else side - 1]
                        if side:
                            R.cls("invalid:duplicate-apart")
                    else:
                        src = chunk[min(pos, len(chunk) - 1) if side == 0 else side - 1]       # the same pixel again, with a different value
                        bad = (src[0], src[1], src[2] + 5)
                        if side:
                            R.cls("invalid:duplicate-apart")
                    rows = chunk[:pos] + [bad] + chunk[pos:]
                    chunks = [px(c, idt) for c in stream[:ci]] + [px(rows, idt)] + [px(c, idt) for c in stream[ci + 1:]]
                    ckw = {}
                    if unit.get("extra_column"):
                        R.cls("invalid:stream-with-extra-column")
                        for ch in chunks:
                            ch["score"] = ch["count"] / 4.0 + 0.5
                        ckw = {"columns": ["count", "score"], "dtypes": {"score": np.dtype(float)}}
                    if "idtype" in unit:
                        R.cls("invalid:idtype-" + idt.name)
                    R.order = (R.order[0], kk)
                    R.ev(1, 1)
                    R.add("transitions")
                    R.cls("invalid:" + kind)
                    R.cls("dest:" + dest)
                    if not symm:
                        R.cls("invalid:square-mode")
                    f, uri, mode, before = prepare(dest, wd)
                    raised = False
                    try:
                        _create(uri, chunks, producer, mode, symm=symm, temp_dir=wd if producer == "unordered" else None, **ckw)
                    except Exception:
                        raised = True
                    after(R, inner, dest, f, uri, before, None, raised, must_raise=True)
    scratch.rm(wd)


class Boom(RuntimeError):
    pass


def _iterfail(R, unit, only):
    stream = STREAMS[unit["stream"]]
    dest, producer = unit["dest"], unit["producer"]
    wd = scratch.sub(f"c13_{os.getpid()}")
    R.add("states")
    R.add("traces")
    for at in range(len(stream) + 1):
        inner = {"fail_before_chunk": at}
        if only is not None and only != inner:
            continue
        R.order = (R.order[0], at)
        R.ev(1, 1)
        R.add("transitions")
        R.cls("iterator-failure")
        R.cls("dest:" + dest)

        def gen():
            for k, c in enumerate(stream):
                if k == at:
                    raise Boom("input iterator failed")
                yield px(c)
            if at == len(stream):
                raise Boom("input iterator failed at the end")
        f, uri, mode, before = prepare(dest, wd)
        raised = False
        try:
            _create(uri, gen, producer, mode, temp_dir=wd if producer == "unordered" else None)
        except Exception:
            raised = True
        after(R, inner, dest, f, uri, before, None, raised, must_raise=True)
    scratch.rm(wd)


def _producer_call(producer, uri, mode, stream, symm, wd):
    """returns a closure running the producer, and the complete expected pixel dict"""
    import cooler
    allpix = {(r[0], r[1]): r[2] for c in stream for r in c}
    if producer in ("ordered", "unordered"):
        def call():
            _create(uri, [px(c) for c in stream], producer, mode, symm=symm, temp_dir=wd if producer == "unordered" else None)
        return call, allpix
    if producer == "merge":
        srcs = [fx.make(("c13m", k, tuple(map(tuple, c)), symm), BINS, {(r[0], r[1]): {"count": r[2]} for r in c}, symm=symm, cols=("count",))
                for k, c in enumerate(stream)]

        def call():
            cooler.merge_coolers(uri, srcs, mergebuf=2, mode=mode)
        return call, allpix
    src = fx.make(("c13c", tuple(tuple(map(tuple, c)) for c in stream), symm), BINS, {k: {"count": v} for k, v in allpix.items()}, symm=symm, cols=("count",))
    from vmc import models
    _, want = models.ref_coarsen([tuple(b) for b in BINS], allpix, 2)

    def call():
        cooler.coarsen_cooler(src, uri, 2, chunksize=1, mode=mode)
    return call, want


def _iofault(R, unit, only):
    stream = STREAMS[unit["stream"]]
    dest, producer, symm = unit["dest"], unit["producer"], unit["symm"]
    wd = scratch.sub(f"c13_{os.getpid()}")
    R.add("states")
    R.add("traces")
    # fault-free run: count the calls
    f, uri, mode, before = prepare(dest, wd)
    call, want = _producer_call(producer, uri, mode, stream, symm, wd)
    H5Hook.start()
    try:
        call()
    finally:
        N, log = H5Hook.stop()
    got, _ = fx.read(uri)
    if {k: v["count"] for k, v in got.items()} != want:
        R.mismatch("fault-free-run-differs-from-input", {"k": 0}, f"got={got} want={want}")
    fmt_at = None
    for k in range(1, N + 1):
        inner = {"k": k, "call": log[k - 1], "N": N}
        if only is not None and only.get("k") != k:
            continue
        R.order = (R.order[0], k)
        R.ev(1, 1)
        R.add("transitions")
        R.add("fault_points")
        R.cls("io-fault")
        R.cls("io-fault:" + log[k - 1].split("(")[0])
        R.cls("dest:" + dest)
        f, uri, mode, before = prepare(dest, wd)
        call, want = _producer_call(producer, uri, mode, stream, symm, wd)
        raised = False
        H5Hook.start(fail_at=k)
        try:
            call()
        except Exception:
            raised = True
        finally:
            H5Hook.stop()
        nrec0 = R.classes["recognised-after-disturbance"]
        after(R, inner, dest, f, uri, before, want, raised, must_raise=False, symm=symm)
        if R.classes["recognised-after-disturbance"] > nrec0:
            R.cls("fault-after-format-attr")
        for leftover in os.listdir(wd):
            if leftover != "w.cool":
                scratch.rm(os.path.join(wd, leftover))
    R.sample({"leg": "iofault", "producer": producer, "dest": dest, "N_calls": N, "first_calls": log[:12]})
    scratch.rm(wd)


SCELLS = {"a": [[(0, 0, 1), (0, 2, 5)], [(1, 1, 2)]], "b": [[(0, 3, 1)], [(1, 2, 2), (3, 3, 3)]], "c10": [[(2, 3, 4)]]}


def _scool(R, unit, only):
    import cooler
    from cooler import fileops
    kind = unit["kind"]
    wd = scratch.sub(f"c13s_{os.getpid()}")
    f = os.path.join(wd, "w.scool")
    names = sorted(SCELLS)
    want = {nm: {(r[0], r[1]): r[2] for c in SCELLS[nm] for r in c} for nm in names}
    R.add("states")
    R.add("traces")

    def run(cells, fail_at=None):
        if os.path.exists(f):
            os.remove(f)
        raised = False
        H5Hook.start(fail_at=fail_at)
        try:
            cooler.create_scool(f, build.bins_df(BINS), cells, ordered=True)
        except Exception:
            raised = True
        finally:
            n, log = H5Hook.stop()
        return raised, n, log

    def judge(inner, raised, must_raise, bad_cell=None):
        """-> set of recognised cells"""
        if must_raise and not raised:
            R.mismatch("invalid-input-not-rejected", inner, "create_scool returned normally")
        recog = set()
        if not os.path.exists(f):
            return recog
        try:
            listing = fileops.list_coolers(f)
        except Exception as e:
            R.mismatch("list_coolers-raises", inner, f"{type(e).__name__}: {e!s:.100}")
            listing = []
        for nm in names:
            uri = f + "::/cells/" + nm
            try:
                rec = fileops.is_cooler(uri)
            except Exception as e:
                R.mismatch("is_cooler-raises", inner, f"{type(e).__name__}: {e!s:.100}")
                rec = False
            if not rec and ("/cells/" + nm) not in listing:
                continue
            recog.add(nm)
            R.cls("recognised-after-disturbance")
            v = [c for c in h5ref.validate(f, "/cells/" + nm) if c not in ("V:attr-missing:format-version", "V:attr-missing:format-url")]
            ok = not v
            if ok:
                try:
                    df = cooler.Cooler(uri).pixels()[:]
                    ok = {(a, b): c for a, b, c in zip(df["bin1_id"].tolist(), df["bin2_id"].tolist(), df["count"].tolist())} == want[nm]
                except Exception:
                    ok = False
            if not ok or nm == bad_cell:
                R.mismatch("incomplete-collection-recognised-as-cooler", {**inner, "cell": nm}, f"V={v}")
        return recog

    def frames(nm):
        return px([r for c in SCELLS[nm] for r in c])

    if kind == "iofault":
        raised, N, log = run({nm: frames(nm) for nm in names})
        if raised or judge({"k": 0}, raised, False) != set(names):
            R.mismatch("fault-free-run-differs-from-input", {"k": 0}, "")
        prev = set()
        for k in range(1, N + 1):
            inner = {"k": k, "call": log[k - 1], "N": N}
            if only is not None and only.get("k") != k:
                continue
            R.order = (R.order[0], k)
            R.ev(1, 1)
            R.add("transitions")
            R.add("fault_points")
            R.cls("scool:io-fault")
            raised, _, _ = run({nm: frames(nm) for nm in names}, fail_at=k)
            recog = judge(inner, raised, False)
            if only is None and not prev <= recog:
                R.mismatch("finished-cell-lost-by-a-later-fault", inner, f"recognised with the fault one call earlier: {sorted(prev)}, now: {sorted(recog)}")
            prev = recog
        R.sample({"leg": "scool", "kind": kind, "cells": names, "N_calls": N})
    else:
        kk = 0
        for bi, bad in enumerate(names):
            for ci in range(len(SCELLS[bad]) + 1):
                for what in ((("bin-too-large", (0, NB, 1)), ("negative-bin", (-1, 2, 1)), ("lower-triangle", (3, 1, 1)), ("duplicate", None)) if kind == "invalid" else (("iterator-raises", None),)):
                    kk += 1
                    inner = {"cell": bad, "chunk": ci, "what": what[0]}
                    if only is not None and only != inner:
                        continue
                    if kind == "invalid" and ci == len(SCELLS[bad]):
                        continue
                    R.order = (R.order[0], kk)
                    R.ev(1, 1)
                    R.add("transitions")
                    R.cls("scool:" + kind)

                    def chunks(nm):
                        if nm != bad:
                            return iter([px(c) for c in SCELLS[nm]])
                        if kind == "iterfail":
                            def gen():
                                for q, c in enumerate(SCELLS[nm]):
                                    if q == ci:
                                        raise Boom("iterator failure")
                                    yield px(c)
                                if ci == len(SCELLS[nm]):
                                    raise Boom("iterator failure")
                            return gen()
                        cs = [list(c) for c in SCELLS[nm]]
                        cs[ci] = cs[ci] + [what[1] if what[1] is not None else cs[ci][0]]
                        return iter([px(c) for c in cs])
                    raised, _, _ = run({nm: chunks(nm) for nm in names})
                    judge(inner, raised, True, bad_cell=bad)      # (in which order the cells are written is the implementation's business)
    scratch.rm(wd)


def _load(R, dest, only):
    """`cooler load -f coo` with one bad line at every line number"""
    wd = scratch.sub(f"c13_{os.getpid()}")
    bed = os.path.join(wd, "bins.bed")
    with open(bed, "w") as fh:
        for b in BINS:
            fh.write("\t".join(str(x) for x in b) + "\n")
    lines = ["0\t0\t1", "0\t2\t5", "1\t1\t2", "2\t3\t4"]
    R.add("states")
    R.add("traces")
    kk = 0
    for kind, bad in (("non-numeric", "x\t1\t2"), ("bin-too-large", "0\t9\t1"), ("negative-bin", "-1\t2\t1"), ("duplicate", None), ("short-line", "1")):
        for at in range(len(lines) + 1):
            for cs in (1, 2, 10 ** 6):
                kk += 1
                inner = {"kind": kind, "line": at, "chunksize": cs}
                if only is not None and only != inner:
                    continue
                if kind == "duplicate":
                    if cs < 2 or at == 0:
                        continue   # a duplicate is only invalid inside one chunk
                    b = lines[at - 1]
                    # make sure both copies land in the same text chunk
                    if (at - 1) // cs != at // cs and cs != 10 ** 6:
                        continue
                else:
                    b = bad
                R.order = (R.order[0], kk)
                R.ev(1, 1)
                R.add("transitions")
                R.cls("load-bad-line")
                R.cls("dest:" + dest)
                txt = os.path.join(wd, "in.coo")
                with open(txt, "w") as fh:
                    fh.write("\n".join(lines[:at] + [b] + lines[at:]) + "\n")
                f, uri, mode, before = prepare(dest, wd)
                args = ["load", "-f", "coo", "--chunksize", cs, "--temp-dir", wd] + (["--append"] if mode == "a" else []) + [bed, txt, uri]
                code, so, exc = build.cli(args)
                raised = code != 0 or exc is not None
                after(R, inner, dest, f, uri, before, None, raised, must_raise=True)
                for leftover in os.listdir(wd):
                    if leftover not in ("w.cool", "bins.bed", "in.coo"):
                        scratch.rm(os.path.join(wd, leftover))
    scratch.rm(wd)


def _mapfail(R, dest, only):
    """coarsen: a worker task fails at span j (through the public map seam of CoolerCoarsener)"""
    import cooler
    from cooler._reduce import CoolerCoarsener
    from cooler.create import create
    wd = scratch.sub(f"c13_{os.getpid()}")
    allpix = {(r[0], r[1]): r[2] for c in STREAMS[0] for r in c}
    src = fx.make(("c13mf",), BINS, {k: {"count": v} for k, v in allpix.items()}, cols=("count",))
    R.add("states")
    R.add("traces")
    for j in range(0, 5):
        inner = {"fail_at_span": j}
        if only is not None and only != inner:
            continue
        R.order = (R.order[0], j)
        R.ev(1, 1)
        R.add("transitions")
        R.cls("map-failure")
        R.cls("dest:" + dest)
        count = [0]
        fired = [False]

        def badmap(fn, items):
            for it in items:
                if count[0] == j:
                    fired[0] = True
                    raise Boom("worker failed")
                count[0] += 1
                yield fn(it)
        f, uri, mode, before = prepare(dest, wd)
        raised = False
        try:
            it = CoolerCoarsener(src, 2, 1, columns=["count"], agg=None, batchsize=1, map=badmap)
            create(uri, it.new_bins, it, mode=mode, symmetric_upper=True)
        except Exception:
            raised = True
        if not fired[0]:
            continue   # fewer spans than j: the run completed normally
        after(R, inner, dest, f, uri, before, None, raised, must_raise=True)
    scratch.rm(wd)


def _bigdup(R, only, tier="quick"):
    """one in-memory table of 1,000,003 rows in which a pixel occurs twice, the two sorted copies sitting on either side of row
    1,000,000 (and, as a control, far from it): must be rejected wherever the copies are"""
    import cooler
    n = 1500
    i, j = np.triu_indices(n)
    i, j = i[:1000001], j[:1000001]
    bins = build.bins_df([("chr1", q * 10, (q + 1) * 10) for q in range(n)])
    R.add("states")
    R.add("traces")
    wd = scratch.sub(f"c13big_{os.getpid()}")
    for at in ((999999, 1000000, 500, 999998) if tier == "thorough" else (999999, 500)):   # copies at sorted rows 999,999 and 1,000,000 (either side of the boundary); control
        inner = {"duplicate_of_sorted_row": at}
        if only is not None and only != inner:
            continue
        R.ev(1, 1)
        R.add("transitions")
        R.cls("invalid:duplicate-across-1e6-rows")
        b1 = np.insert(i, at, i[at])
        b2 = np.insert(j, at, j[at])
        cnt = np.ones(len(b1), dtype=np.int32)
        cnt[at] = 3
        df = pd.DataFrame({"bin1_id": b1, "bin2_id": b2, "count": cnt})
        f, uri, mode, before = prepare("new-group", wd)
        raised = False
        try:
            cooler.create_cooler(uri, bins, df, mode=mode, h5opts={"compression": None, "shuffle": False})
        except Exception:
            raised = True
        after(R, inner, "new-group", f, uri, before, None, raised, must_raise=True)
    scratch.rm(wd)


def seams():
    H5Hook.install()


def run(unit, R, tier, only=None):
    leg = unit["leg"]
    if leg == "invalid":
        _invalid(R, unit, only)
    elif leg == "iterfail":
        _iterfail(R, unit, only)
    elif leg == "iofault":
        _iofault(R, unit, only)
    elif leg == "load":
        _load(R, unit["dest"], only)
    elif leg == "mapfail":
        _mapfail(R, unit["dest"], only)
    elif leg == "scool":
        _scool(R, unit, only)
    elif leg == "bigdup":
        _bigdup(R, only, tier)
    else:
        raise ValueError(leg)
