"""C08 — coarsening by k is exact block aggregation within each chromosome (E1 + E2 + E3)."""
from __future__ import annotations

import os

import numpy as np

from vmc import alpha, build, fixtures as fx, h5ref, models
from vmc.core import scratch
from vmc.seams import sched

ID = "C08"
TECHNIQUE = 'bounded exhaustive input enumeration against a reference model + deviation-bounded stateless exploration of every pool.map execution order through the Pool/lock seam (iterative context bounding), on the real implementation'
LEVEL = "model_checking"
RULE = ("coarsen leg: 18 bin tables (1-3 chromosomes with fewer/exactly/more bins than k, fixed with short last bin, variable, + 8-bin fixed / variable / uniform-looking / short-chromosome tables) x "
        "matrices (every subset for n<=3, structured family above) x storage mode x k in {2,3,4,7} x chunksize x columns/aggregation "
        "against ref_coarsen (bins and pixels), total preserved, validator V; sched leg: nproc in {2,3} under VirtualPool - every "
        "execution order of every pool.map batch with <= B deviating batches plus the all-reversed schedule, protocol monitors (no "
        "task while the file is open for writing, writes and tasks under the lock, no pending task at release, no deadlock); one "
        "real multiprocess.Pool(2) conformance run per configuration; chain leg: k1 then k2 == k1*k2, coarsen(merge) == "
        "merge(coarsen), same-file vs new-file destination. Non-trivial: >=2 pixels and >=1 group with 2 members. Distinct by construction.")
EXTRA_LEGS = 'binsizes: every old bin size b and factor k in {2,3,5,7} with b*k <= 256 (thorough 1024) on 40 coarse bins with partial groups, chunksize {1e6, 97}.' + ' every other case writes into an output path that already holds another coarsening.'
BOUNDS = {"quick": "18 tables; chunksize {1,1e6} everywhere, {2,3,nnz} for k=2 symmetric; schedules: deviation bound 1; binsizes: every old bin size b and k in {2,3,5,7} with b*k <= 256 on 40 coarse bins + partial groups, chunksize {1e6, 97}",
          "thorough": "chunksize {1,2,3,nnz,1e6} everywhere; schedules: deviation bound 2; all structured matrices on 8-bin tables; binsizes with b*k <= 1024"}
ASSUMPTIONS = ["worker processes are explored through the Pool seam in one interpreter (tasks run on dill copies, in every order); "
               "OS-level timing between real processes is covered only by the single real-pool conformance run",
               "values are small integers / dyadic rationals: aggregates are exact"]
EXPECT_CLASSES = {"*": ["coarsen:fixed", "coarsen:variable", "k>chrom", "sched", "real-pool", "chain"]}

T8 = [((1,) * 5, (1,) * 3), ((2, 1, 3, 1), (1, 2, 2, 1)), ((2, 2, 2, 3), (2, 2, 2, 2)), ((1,) * 6, (1,), (1,))]
KS = [2, 3, 4, 7]
COLAGG = [(["count", "score"], None), (["count"], None), (["count"], {"count": "max"}), (["score"], {"score": "mean"}), (["count", "score"], {"count": "min", "score": "max"}),
          (["count"], {"count": "count"}), (["count"], {"count": "nunique"})]     # aggregates that do not return a single value unchanged


TSMALL = [((1, 1),), ((1, 1, 1),), ((2, 2, 2, 2),), ((1, 2, 3, 1, 2),), ((2, 2, 2, 2, 2, 1),),
          ((1,), (1,)), ((1, 1), (1,)), ((2, 2, 2), (2, 1)), ((1, 3), (2, 1, 1)), ((2, 2, 2, 2), (2, 2)), ((1,), (1, 1, 1, 1, 1)),
          ((1,), (1,), (1,)), ((2, 2), (2,), (2, 2, 1)), ((1, 2), (3, 1, 2), (1,))]


def tables():
    """hand-picked for coarsening: chromosomes with fewer / exactly / more bins than k, multiples of k or not, fixed width with
    short last bin, variable width, uniform-looking variable; 1-3 chromosomes; + four 8-bin tables"""
    return TSMALL + T8


def matrices(n, symm, th):
    if n <= 3:
        return [(p, alpha.pattern_cells(n, symm, p)) for p in range(alpha.npatterns(n, symm))]
    fam = alpha.structured(n, symm)
    if n >= 7 and not th:
        fam = [f for f in fam if f[0] in ("empty", "full", "diag", "off1", "row0", "col%d" % (n - 1), "checker", "corners", "mid_empty", "sparse3")]
    return fam


def units(tier):
    th = tier == "thorough"
    for ti, t in enumerate(tables()):
        n = alpha.table_nbins(t)
        for symm in (True, False):
            if not symm and n == 3 and not th:
                mats = matrices(n, symm, th)[::9]
            else:
                mats = matrices(n, symm, th)
            for (tag, _) in mats:
                yield {"leg": "coarsen", "t": ti, "symm": symm, "mat": tag}
    for ti in (len(tables()) - 4, len(tables()) - 3, len(tables()) - 1, 7, 12):
        for symm in (True, False):
            for nproc in (2, 3):
                yield {"leg": "sched", "t": ti, "symm": symm, "nproc": nproc}
    for ti in (len(tables()) - 4, len(tables()) - 3):
        yield {"leg": "real-pool", "t": ti}
    for q in range(8):
        for part in range(8):
            yield {"leg": "chain", "q": q, "part": part}
    # several DIFFERENT variable-width tables with the same chromosome sizes and the same number of bins coarsened one after the
    # other in one process, in every order (anything remembered from one call must not leak into the next)
    for k in (2, 3):
        for perm in range(6):
            yield {"leg": "seqvar", "k": k, "perm": perm}
    yield {"leg": "limit"}
    yield {"leg": "legacy"}
    yield {"leg": "cli"}
    # every old bin size b and factor k with b*k <= 256 (thorough 1024) on a chromosome of 40 coarse bins: the re-binning arithmetic
    # (start coordinate -> coarse bin) must be exact at every multiple of every bin size, not only at the sizes 1..3 used elsewhere
    top = 1024 if th else 256
    for k in (2, 3, 5, 7):
        bs = list(range(1, top // k + 1))
        step = 8 if th else 6
        for lo in range(0, len(bs), step):
            yield {"leg": "binsizes", "k": k, "bs": bs[lo:lo + step]}


def _source(ti, symm, tag, cells):
    t = tables()[ti]
    bins = alpha.table_bins(t, "chr")
    n = len(bins)
    pix = fx.pixvals(cells, n)
    uri = fx.make(("c08", ti, symm, tag), bins, pix, symm=symm)
    return uri, bins, pix


def _want(bins, pix, k, cols, agg):
    newbins = None
    want = {}
    for c in cols:
        newbins, m = models.ref_coarsen(bins, {kk: v[c] for kk, v in pix.items()}, k, (agg or {}).get(c, "sum"))
        for kk, v in m.items():
            want.setdefault(kk, {})[c] = v
    if newbins is None:
        newbins, _ = models.ref_coarsen(bins, {}, k)
    return newbins, want


def _judge(R, inner, out_uri, bins, pix, k, cols, agg):
    newbins, want = _want(bins, pix, k, cols, agg)
    try:
        got, rd = fx.read(out_uri)
    except Exception as e:
        R.mismatch("unreadable-output:" + type(e).__name__, inner, f"{e!s:.200}")
        return None
    if [tuple(b) for b in rd["bins"]] != newbins:
        R.mismatch("coarse-bins!=groups-of-k", inner, f"got={rd['bins']} want={newbins}")
        return None
    msg = fx.same_values(got, want, cols)
    if msg:
        R.mismatch("coarse-pixels!=block-aggregate", inner, msg + f" bins={bins}")
    if "count" in cols and (agg or {}).get("count", "sum") == "sum":
        tot = sum(v["count"] for v in pix.values())
        if rd["attrs"].get("sum") != tot:
            R.mismatch("total-not-preserved", inner, f"sum={rd['attrs'].get('sum')} want={tot}")
    path, _, grp = out_uri.partition("::")
    v = h5ref.validate(path, grp or "/")
    if v:
        R.mismatch("V:" + v[0], inner, f"{v}")
    return got


def _coarsen(R, unit, tier, only):
    import cooler
    th = tier == "thorough"
    ti, symm, tag = unit["t"], unit["symm"], unit["mat"]
    t = tables()[ti]
    n = alpha.table_nbins(t)
    cells = dict((str(a), b) for a, b in matrices(n, symm, True))[str(tag)]
    uri, bins, pix = _source(ti, symm, tag, cells)
    nnz = len(pix)
    fixed = models.ref_true_binsize(bins) is not None and len({b[2] - b[1] for b in bins}) == 1
    R.add("states")
    R.add("traces")
    kk = 0
    for k in KS:
        if k > n:
            continue
        chunks = sorted({1, 2, 3, max(nnz, 1), 10 ** 6}) if (th or (symm and k == 2)) else [1, 10 ** 6]
        for cs in chunks:
            for ci, (cols, agg) in enumerate(COLAGG):
                if ci and not (k == 2 and cs in (2, 10 ** 6) and (th or ti % 3 == 0)):
                    continue
                kk += 1
                inner = {"k": k, "chunksize": cs, "colagg": ci}
                if only is not None and only != inner:
                    continue
                R.order = (R.order[0], kk)
                groups2 = any(len(c) >= 2 for c in t)
                R.ev(1, 1 if nnz >= 2 and groups2 else 0)
                R.add("transitions")
                R.cls("coarsen:fixed" if fixed else "coarsen:variable")
                if any(len(c) < k for c in t):
                    R.cls("k>chrom")
                out = scratch.fresh()
                try:
                    try:
                        if kk % 2 == 0 and n >= 2:
                            # every other case: the output path already holds the result of ANOTHER coarsening (factor n: one bin per
                            # chromosome at most) of the same source
                            R.cls("coarsen:output-path-already-holds-a-cooler")
                            cooler.coarsen_cooler(uri, out, n, chunksize=10 ** 6)
                        cooler.coarsen_cooler(uri, out, k, chunksize=cs, columns=list(cols), agg=dict(agg) if agg else None)
                    except Exception as e:
                        R.mismatch("coarsen-raises:" + type(e).__name__, inner, f"{e!s:.300} bins={bins}")
                        continue
                    got = _judge(R, inner, out, bins, pix, k, cols, agg)
                    if got is not None and cs == 1:
                        R.outcome((n, k, sorted((a, tuple(sorted(b.items()))) for a, b in got.items())))
                finally:
                    scratch.rm(out)


class _Last(sched.Choices):
    """the uniform 'last alternative at every choice point' schedule (all batches reversed)"""

    def choose(self, n, label=""):
        self.trace.append((n, n - 1, label))
        return n - 1


def _sched(R, unit, tier, only):
    import cooler
    bound = 2 if tier == "thorough" else 1
    ti, symm, nproc = unit["t"], unit["symm"], unit["nproc"]
    t = tables()[ti]
    n = alpha.table_nbins(t)
    cells = alpha.structured(n, symm)[1][1]     # full matrix: many spans
    uri, bins, pix = _source(ti, symm, "full", cells)
    R.add("states")
    R.add("traces")
    kk = 0
    for k, cs in ((2, 2), (3, 1), (2, 5)):
        base = None

        def run(ch):
            mon = sched.Monitor()
            vl, restore = sched.patch_reduce(mon, ch)
            out = scratch.fresh()
            sched.H5Hook.start(mon=mon)
            err = None
            try:
                cooler.coarsen_cooler(uri, out, k, chunksize=cs, nproc=nproc, columns=["count", "score"])
            except sched.Deadlock as e:
                err = "deadlock"
            except Exception as e:
                err = f"{type(e).__name__}: {e!s:.200}"
            finally:
                sched.H5Hook.stop()
                restore()
            if vl.held:
                mon.flag("lock still held after return")
            return out, err, mon

        runs = list(sched.explore(run, bound)) + [(c, run(c)) for c in [_Last()]]
        for ch, (out, err, mon) in runs:
            kk += 1
            choices = [c for (_, c, _) in ch.trace]
            inner = {"k": k, "chunksize": cs, "choices": choices}
            try:
                if only is not None and only != inner:
                    continue
                R.order = (R.order[0], kk)
                R.ev(1, 1 if any(choices) else 0)
                R.add("transitions")
                R.add("schedules")
                R.cls("sched")
                R.cls("sched:points=%d" % len(ch.trace))
                if err:
                    R.mismatch("schedule:" + ("deadlock" if err == "deadlock" else "raises"), inner, err)
                    continue
                for f in mon.flags:
                    R.mismatch("protocol:" + f, inner, f"labels={[l for (_, _, l) in ch.trace]}")
                got = _judge(R, inner, out, bins, pix, k, ["count", "score"], None)
                R.outcome(("sched", ti, k, cs, sorted(got.items(), key=str) if got else None))
            finally:
                scratch.rm(out)
    R.sample({"leg": "sched", "table": [list(c) for c in t], "nproc": nproc, "bound": bound,
              "choice points": "one per pool.map batch; alternatives = all execution orders of the batch"})


def _realpool(R, unit, only):
    import cooler
    ti = unit["t"]
    t = tables()[ti]
    n = alpha.table_nbins(t)
    cells = alpha.structured(n, True)[1][1]
    uri, bins, pix = _source(ti, True, "full", cells)
    R.add("states")
    R.add("traces")
    for kk, (k, cs) in enumerate(((2, 2), (3, 1))):
        inner = {"k": k, "chunksize": cs}
        if only is not None and only != inner:
            continue
        R.order = (R.order[0], kk)
        R.ev(1, 1)
        R.add("transitions")
        R.cls("real-pool")
        out = scratch.fresh()
        try:
            try:
                cooler.coarsen_cooler(uri, out, k, chunksize=cs, nproc=2, columns=["count", "score"])
            except Exception as e:
                R.mismatch("real-pool-raises:" + type(e).__name__, inner, f"{e!s:.300}")
                continue
            _judge(R, inner, out, bins, pix, k, ["count", "score"], None)
        finally:
            scratch.rm(out)


def _chain(R, q, only, part=0):
    import cooler
    R.add("states")
    R.add("traces")
    d = scratch.sub(f"c08ch{os.getpid()}_{q}")
    try:
        if q < 4:
            # k1 then k2 == k1*k2 on true fixed-width tables; same-file destination vs new file
            t = [((1,) * 8, (1,) * 5), ((2,) * 7, (2,) * 6), ((1,) * 12,), ((1,) * 6, (1,) * 4, (1,) * 3)][q]
            bins = alpha.table_bins(t, "chr")
            n = len(bins)
            for mi, (name, cells) in enumerate(alpha.structured(n, True)[:8]):
                if mi != part:
                    continue
                pix = fx.pixvals(cells, n)
                src = fx.make(("c08chain", q, name), bins, pix)
                for k1, k2 in ((2, 2), (2, 3), (3, 2)):
                    inner = {"mat": name, "k1": k1, "k2": k2}
                    if only is not None and only != inner:
                        continue
                    R.order = (R.order[0], mi * 3 + k1 * 2 + k2)
                    R.ev(1, 1 if len(cells) > 1 else 0)
                    R.add("transitions", 4)
                    R.cls("chain")
                    try:
                        a = os.path.join(d, "a.cool")
                        cooler.coarsen_cooler(src, a, k1, chunksize=3, columns=["count", "score"])
                        b = os.path.join(d, "b.cool")
                        cooler.coarsen_cooler(a, b, k2, chunksize=2, columns=["count", "score"])
                        c = os.path.join(d, "c.cool")
                        cooler.coarsen_cooler(src, c, k1 * k2, chunksize=10 ** 6, columns=["count", "score"])
                        # same-file destination (as zoomify does)
                        cooler.coarsen_cooler(a, a + "::/again", k2, chunksize=1, columns=["count", "score"], mode="r+")
                        gb, rb = fx.read(b)
                        gc, rc = fx.read(c)
                        gs, rs = fx.read(a + "::/again")
                        if rb["bins"] != rc["bins"] or fx.same_values(gb, gc, ("count", "score")):
                            R.mismatch("k1-then-k2!=k1*k2", inner, f"{fx.same_values(gb, gc, ('count', 'score'))} bins {rb['bins']} vs {rc['bins']}")
                        if rs["bins"] != rb["bins"] or fx.same_values(gs, gb, ("count", "score")):
                            R.mismatch("same-file-destination!=new-file", inner, f"{fx.same_values(gs, gb, ('count', 'score'))}")
                        _judge(R, inner, c, bins, pix, k1 * k2, ["count", "score"], None)
                        v = h5ref.validate(a, "/again")
                        if v:
                            R.mismatch("V:" + v[0], inner, f"same-file {v}")
                        ga, _ = fx.read(a)
                        _judge(R, {**inner, "which": "source-after-same-file-coarsen"}, a, bins, pix, k1, ["count", "score"], None)
                    except Exception as e:
                        R.mismatch("chain-raises:" + type(e).__name__, inner, f"{e!s:.300}")
        else:
            # coarsen(merge(a,b)) == merge(coarsen(a), coarsen(b)) for every pair of a pool
            from vmc.checks import c07
            tab = "F" if q % 2 == 0 else "V"
            symm = q < 6
            k = 2
            for a in range(8):
                if a != part:
                    continue
                for b in range(a, 8):
                    inner = {"a": a, "b": b, "tab": tab, "symm": symm}
                    if only is not None and only != inner:
                        continue
                    R.order = (R.order[0], a * 8 + b)
                    R.ev(1, 1)
                    R.add("transitions", 5)
                    R.cls("chain")
                    try:
                        ua, ub = c07.pool_uri(a, symm, tab), c07.pool_uri(b, symm, tab)
                        m = os.path.join(d, "m.cool")
                        cooler.merge_coolers(m, [ua, ub], mergebuf=3, columns=["count", "score"])
                        cm = os.path.join(d, "cm.cool")
                        cooler.coarsen_cooler(m, cm, k, chunksize=2, columns=["count", "score"])
                        ca, cb = os.path.join(d, "ca.cool"), os.path.join(d, "cb.cool")
                        cooler.coarsen_cooler(ua, ca, k, chunksize=3, columns=["count", "score"])
                        cooler.coarsen_cooler(ub, cb, k, chunksize=1, columns=["count", "score"])
                        mc = os.path.join(d, "mc.cool")
                        cooler.merge_coolers(mc, [ca, cb], mergebuf=2, columns=["count", "score"])
                        g1, r1 = fx.read(cm)
                        g2, r2 = fx.read(mc)
                        if r1["bins"] != r2["bins"] or fx.same_values(g1, g2, ("count", "score")):
                            R.mismatch("coarsen(merge)!=merge(coarsen)", inner, f"{fx.same_values(g1, g2, ('count', 'score'))}")
                    except Exception as e:
                        R.mismatch("chain-raises:" + type(e).__name__, inner, f"{e!s:.300}")
    finally:
        scratch.rm(d)


SEQVAR = [((1, 3, 2), (2, 1, 1)), ((3, 1, 2), (1, 2, 1)), ((2, 2, 2), (1, 1, 2))]      # sizes (6, 4), 6 bins each, different edges


def _seqvar(R, unit, only):
    import cooler
    import itertools as it
    order = list(it.permutations(range(3)))[unit["perm"]]
    k = unit["k"]
    R.add("states")
    R.add("traces")
    for step, ti in enumerate(order):
        t = SEQVAR[ti]
        bins = alpha.table_bins(t, "chr")
        n = len(bins)
        cells = alpha.structured(n, True)[1][1]
        pix = fx.pixvals(cells, n)
        uri = fx.make(("c08seq", ti), bins, pix)
        inner = {"step": step, "table": ti}
        if only is not None and only != inner:
            pass
        R.order = (R.order[0], step)
        R.ev(1, 1 if step else 0)
        R.add("transitions")
        R.cls("seqvar")
        out = scratch.fresh()
        try:
            try:
                cooler.coarsen_cooler(uri, out, k, chunksize=4, columns=["count", "score"])
            except Exception as e:
                R.mismatch("coarsen-raises:" + type(e).__name__, inner, f"{e!s:.300}")
                continue
            _judge(R, inner, out, bins, pix, k, ["count", "score"], None)
        finally:
            scratch.rm(out)


def _binsizes(R, unit, only):
    import cooler
    k = unit["k"]
    for b in unit["bs"]:
        inner = {"k": k, "binsize": b}
        if only is not None and only != inner:
            continue
        n1, n2 = 40 * k + 1, 3 * k          # chromosome 1: 40 full groups + one fine bin; chromosome 2: 3 groups, last fine bin shorter
        bins = [("chr2", i * b, (i + 1) * b) for i in range(n1)] + [("chr10", i * b, (i + 1) * b if i < n2 - 1 else (i + 1) * b - (b > 1)) for i in range(n2)]
        n = len(bins)
        cells = [(i, i) for i in range(n)] + [(i, n - 1) for i in range(0, n - 1)] + [(0, j) for j in range(1, n - 1)]
        pix = {c: {"count": 1 + (c[0] * 7 + c[1]) % 5} for c in cells}
        R.add("states")
        R.add("traces")
        R.ev(1, 1)
        R.add("transitions")
        R.cls("binsizes")
        src, out = scratch.fresh(), scratch.fresh()
        try:
            cooler.create_cooler(src, build.bins_df(bins), fx.frame(pix, ("count",)), ordered=True)
            for cs in (10 ** 6, 97):
                try:
                    cooler.coarsen_cooler(src, out, k, chunksize=cs)
                except Exception as e:
                    R.mismatch("coarsen-raises:" + type(e).__name__, {**inner, "chunksize": cs}, f"{e!s:.300}")
                    continue
                _judge(R, {**inner, "chunksize": cs}, out, bins, pix, k, ("count",), None)
        finally:
            scratch.rm(src)
            scratch.rm(out)


def _limit(R, only):
    """block sums at and beyond the limits of the stored value dtype: the call may raise, or the stored value must be exact"""
    import cooler
    bins = alpha.table_bins(((1,) * 4, (1,) * 2), "chr")
    R.add("states")
    R.add("traces")
    kk = 0
    for din, dout, vals in (("int32", None, (2 ** 30, 2 ** 30 - 1, 0, 0)), ("int32", None, (2 ** 30, 2 ** 30, 0, 0)), ("int32", "int64", (2 ** 30, 2 ** 30, 5, 7)),
                            ("uint8", None, (200, 55, 0, 0)), ("uint8", None, (200, 56, 0, 0)), ("uint8", "int64", (200, 56, 100, 100)),
                            ("int16", "int32", (30000, 30000, 30000, 30000)), ("uint16", "uint32", (65535, 1, 65535, 1))):
        for cs in (1, 10 ** 6):
            kk += 1
            inner = {"in": din, "out": dout, "values": list(vals), "chunksize": cs}
            if only is not None and only != inner:
                continue
            R.order = (R.order[0], kk)
            R.ev(1, 1)
            R.add("transitions")
            R.cls("limit")
            pix = {c: {"count": v} for c, v in zip([(0, 0), (0, 1), (1, 1), (4, 5)], vals) if v}
            pix[(2, 3)] = {"count": 1}
            src = fx.make(("c08lim", din, vals), bins, pix, cols=("count",), count_dtype=np.dtype(din))
            total = sum(vals[:3])
            info = np.iinfo(np.dtype(dout or din))
            out = scratch.fresh()
            try:
                try:
                    cooler.coarsen_cooler(src, out, 2, chunksize=cs, dtypes={"count": np.dtype(dout)} if dout else None)
                except Exception:
                    if total <= info.max:
                        R.mismatch("fitting-aggregate-refused", inner, f"block sum {total} fits {dout or din}")
                    continue
                got, rd = fx.read(out)
                g = got.get((0, 0), {}).get("count")
                if g != total:
                    R.mismatch("stored-value-silently-differs-from-aggregate", inner, f"stored={g} exact={total} dtype={rd['dtypes'].get('count')}")
                if rd["attrs"].get("sum") != sum(v["count"] for v in pix.values()):
                    R.mismatch("total-not-preserved", inner, f"sum={rd['attrs'].get('sum')}")
            finally:
                scratch.rm(out)


def _legacy(R, only):
    """a version-2 file (no storage-mode attribute: to be read as symmetric-upper, per the schema) as source"""
    import cooler
    import h5py
    import shutil
    R.add("states")
    R.add("traces")
    for kk, ti in enumerate((len(tables()) - 4, 7)):
        t = tables()[ti]
        n = alpha.table_nbins(t)
        cells = alpha.structured(n, True)[1][1]
        uri, bins, pix = _source(ti, True, "full", cells)
        src = scratch.fresh()
        shutil.copy(uri, src)
        with h5py.File(src, "r+") as f:
            del f.attrs["storage-mode"]
            f.attrs["format-version"] = 2
        for k in (2, 3):
            inner = {"table": ti, "k": k}
            if only is not None and only != inner:
                continue
            R.order = (R.order[0], kk * 4 + k)
            R.ev(1, 1)
            R.add("transitions")
            R.cls("legacy-v2-source")
            out = scratch.fresh()
            try:
                cooler.coarsen_cooler(src, out, k, chunksize=3, columns=["count", "score"])
                _judge(R, inner, out, bins, pix, k, ["count", "score"], None)
                newbins, want = _want(bins, pix, k, ["count"], None)
                M = np.zeros((len(newbins), len(newbins)))
                for (i, j), v in want.items():
                    M[i, j] = M[j, i] = v["count"]
                A = cooler.Cooler(out).matrix(balance=False)[:]
                if not np.array_equal(A, M):
                    R.mismatch("coarsened-legacy-file-does-not-read-as-symmetric", inner, f"storage-mode={cooler.Cooler(out).storage_mode}")
            except Exception as e:
                R.mismatch("coarsen-raises:" + type(e).__name__, inner, f"{e!s:.300}")
            finally:
                scratch.rm(out)
        scratch.rm(src)


def _cli(R, only):
    ti = len(tables()) - 4
    t = tables()[ti]
    n = alpha.table_nbins(t)
    R.add("states")
    R.add("traces")
    for kk, (name, cells) in enumerate(alpha.structured(n, True)[:6]):
        uri, bins, pix = _source(ti, True, name, cells)
        for k in (2, 3):
            for nproc in (1, 2):
                inner = {"mat": name, "k": k, "nproc": nproc}
                if only is not None and only != inner:
                    continue
                R.order = (R.order[0], kk * 10 + k * 2 + nproc)
                R.ev(1, 1)
                R.add("transitions")
                R.cls("cli")
                out = scratch.fresh()
                try:
                    code, so, exc = build.cli(["coarsen", "-k", k, "-c", 3, "-p", nproc, "-o", out, uri])
                    if code != 0 or exc is not None:
                        R.mismatch("coarsen-cli-fails", inner, f"code={code} exc={exc!r}")
                        continue
                    _judge(R, inner, out, bins, pix, k, ["count"], None)
                finally:
                    scratch.rm(out)
        # --field (columns, aggregates, dtypes) and --append into the SOURCE file (the one case in which the CLI passes the lock)
        for fi, (fields, cols, agg) in enumerate(((["count:agg=max"], ["count"], {"count": "max"}),
                                                  (["count", "score:dtype=float64,agg=min"], ["count", "score"], {"score": "min"}),
                                                  (["score:agg=max"], ["score"], {"score": "max"}))):
            for nproc in (1, 2):
                inner = {"mat": name, "k": 2, "nproc": nproc, "fields": fields, "append_into_source": fi == 1}
                if only is not None and only != inner:
                    continue
                R.ev(1, 1)
                R.add("transitions")
                R.cls("cli:--field")
                out = scratch.fresh()
                try:
                    src = uri
                    dst = out
                    if fi == 1:
                        import shutil
                        shutil.copy(uri.split("::")[0], out)
                        src, dst = out, out + "::/coarse"
                        R.cls("cli:--append-into-source")
                    args = ["coarsen", "-k", 2, "-c", 3, "-p", nproc, "-o", dst] + (["--append"] if fi == 1 else [])
                    for f in fields:
                        args += ["--field", f]
                    code, so, exc = build.cli(args + [src])
                    if code != 0 or exc is not None:
                        R.mismatch("coarsen-cli-fails", inner, f"code={code} exc={exc!r}")
                        continue
                    _judge(R, inner, dst, bins, pix, 2, cols, agg)
                    if fi == 1:
                        # the source collection at the root of the same file is still what it was
                        got0, rd0 = fx.read(out)
                        if fx.same_values(got0, pix, ["count", "score"]):
                            R.mismatch("source-collection-changed-by-append", inner, "")
                finally:
                    scratch.rm(out)


def seams():
    import cooler._reduce as Rm
    import cooler.parallel as Pm
    for mod, att in ((Rm, "mp"), (Rm, "lock"), (Pm, "lock")):
        if not hasattr(mod, att):
            from vmc.core.rec import HarnessError
            raise HarnessError(f"seam missing: {mod.__name__}.{att}")


def run(unit, R, tier, only=None):
    leg = unit["leg"]
    if leg == "coarsen":
        _coarsen(R, unit, tier, only)
        if unit["mat"] == "full" and unit["symm"]:
            R.sample({"leg": leg, "table": [list(c) for c in tables()[unit["t"]]], "matrix": "full", "k": KS, "chunksize": "1,2,3,nnz,1e6"})
    elif leg == "sched":
        _sched(R, unit, tier, only)
    elif leg == "real-pool":
        _realpool(R, unit, only)
    elif leg == "chain":
        _chain(R, unit["q"], only, unit.get("part", 0))
    elif leg == "cli":
        _cli(R, only)
    elif leg == "seqvar":
        _seqvar(R, unit, only)
    elif leg == "binsizes":
        _binsizes(R, unit, only)
    elif leg == "limit":
        _limit(R, only)
    elif leg == "legacy":
        _legacy(R, only)
    else:
        raise ValueError(leg)
