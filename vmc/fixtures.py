"""Per-process cache of small fixture coolers used by several checks (C06-C09, C13, C15 ...)."""
from __future__ import annotations

import os

import numpy as np
import pandas as pd

from vmc import alpha, build, h5ref
from vmc.core import scratch

_cache = {}

TABLE_F = ((2, 2), (2, 2))          # fixed width 2, two chromosomes, 4 bins
TABLE_V = ((1, 3), (2, 1, 1))       # variable widths, two chromosomes, 5 bins
TABLE_F8 = ((1,) * 5, (1,) * 3)     # resolution 1, 8 bins, chromosomes of 5 and 3 bins


def score_of(v):
    return v / 4.0 + 0.5            # dyadic, exact in float32/64


def pixvals(cells, n, scale=1, shift=0):
    """{(i,j): {'count': int, 'score': float}} with pairwise distinct values"""
    return {c: {"count": scale * alpha.value(n, c[0], c[1]) + shift, "score": score_of(scale * alpha.value(n, c[0], c[1]) + shift)}
            for c in cells}


def frame(pix, cols=("count", "score"), count_dtype=np.int32):
    keys = sorted(pix)
    d = {"bin1_id": np.array([k[0] for k in keys], dtype=np.int64), "bin2_id": np.array([k[1] for k in keys], dtype=np.int64)}
    for c in cols:
        d[c] = np.array([pix[k][c] for k in keys], dtype=count_dtype if c == "count" else np.float64)
    return pd.DataFrame(d)


def make(key, bins, pix, symm=True, cols=("count", "score"), count_dtype=np.int32, group="/", **kw):
    """create (once per process) a cooler holding `pix`; -> path (or uri when group != '/')"""
    if key in _cache and os.path.exists(_cache[key].split("::")[0]):
        return _cache[key]
    import cooler
    p = os.path.join(scratch.sub("fixtures"), f"fx{len(_cache)}_{os.getpid()}.cool")
    uri = p if group == "/" else p + "::" + group
    dtypes = {"count": np.dtype(count_dtype)}
    if "score" in cols:
        dtypes["score"] = np.dtype(np.float64)
    cooler.create_cooler(uri, build.bins_df(bins), frame(pix, cols, count_dtype), columns=list(cols), dtypes=dtypes,
                         symmetric_upper=symm, ordered=True, **kw)
    _cache[key] = uri
    return uri


def read(uri, cols=None):
    """-> ({(i,j): {col: value}}, rd) via raw h5py; rows of duplicate pixels are NOT merged (first wins; V flags them)"""
    path, _, grp = uri.partition("::")
    rd = h5ref.read_collection(path, grp or "/")
    out = {}
    for k, rows in rd["pixrows"].items():
        out[k] = {c: rows[0][c] for c in (cols or rd["cols"])}
    return out, rd


def same_values(got, want, cols, tol=0.0):
    """exact comparison of {(i,j): {col: v}} restricted to cols -> None or message"""
    if set(got) != set(want):
        return f"pixel sets differ: extra={sorted(set(got) - set(want))} missing={sorted(set(want) - set(got))}"
    for k in sorted(want):
        for c in cols:
            g, w = got[k][c], want[k][c]
            if g != w and not (tol and abs(g - w) <= tol * max(1.0, abs(w))):
                return f"pixel {k} col {c}: got {g!r} want {w!r}"
    return None
