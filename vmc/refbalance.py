"""Reference iterative correction on the DENSE symmetric matrix (DESIGN §3, ref_balance). Pure numpy, no cooler.

`double_diag=True` reproduces the one place where the implementation departs from the documented procedure:
its marginal adds a stored diagonal pixel to its row twice (finding F14, only visible with ignore_diags=0).
In cis mode the model works on the chromosome's block only ("per chromosome")."""
from __future__ import annotations

import numpy as np


def filtered(A, chrom_of, mode, ignore_diags, double_diag=False):
    A = np.array(A, dtype=float)
    n = len(A)
    idx = np.arange(n)
    d = np.abs(idx[:, None] - idx[None, :])
    ch = np.array(chrom_of)
    same = ch[:, None] == ch[None, :]
    F = A.copy()
    if double_diag:
        F[idx, idx] *= 2
    if ignore_diags:
        F[d < ignore_diags] = 0
    if mode == "cis":
        F[~same] = 0
    return F, same


def ref_balance(A, chrom_of, mode="gw", ignore_diags=2, min_nnz=10, min_count=0, mad_max=5, blacklist=None, x0=None,
                tol=1e-5, max_iters=200, rescale=True, double_diag=False):
    """-> bias, scale, var, info   (scale/var arrays per chromosome in cis mode)"""
    n = len(A)
    ch = np.array(chrom_of)
    F, same = filtered(A, chrom_of, mode, ignore_diags, double_diag)
    bias = np.ones(n) if x0 is None else np.where(np.isnan(np.array(x0, dtype=float)), 0.0, np.array(x0, dtype=float))
    info = {"near_cutoff": set(), "sweep_vars": [], "cutoff": None}
    if min_nnz > 0:
        nnzc = (F != 0).sum(1) + ((np.diag(F) != 0) if double_diag else 0)
        bias[nnzc < min_nnz] = 0
    marg = F.sum(1)
    info["marg0"] = marg.copy()
    if min_count:
        bias[marg < min_count] = 0
    if mad_max > 0:
        m = marg.copy()
        for c in sorted(set(chrom_of)):
            sel = ch == c
            pos = m[sel][m[sel] > 0]
            with np.errstate(all="ignore"):
                m[sel] = m[sel] / (np.median(pos) if len(pos) else np.nan)
        with np.errstate(all="ignore"):
            lg = np.log(m[m > 0])
        if len(lg):
            med = np.median(lg)
            dev = np.median(np.abs(lg - med))
            cutoff = np.exp(med - mad_max * dev)
            info["cutoff"] = float(cutoff)
            with np.errstate(all="ignore"):
                bias[m < cutoff] = 0
                info["near_cutoff"] = {int(k) for k in range(n) if np.isfinite(m[k]) and abs(m[k] / cutoff - 1) < 1e-9}
                info["nan_marg"] = {int(k) for k in range(n) if not np.isfinite(m[k])}
        else:
            info["mad_degenerate"] = True
    if blacklist is not None and len(blacklist):
        bias[list(blacklist)] = 0

    cw = np.ones(n)
    G = F
    if mode == "trans":
        G = F.copy()
        G[same] = 0
        sizes = {c: int((ch == c).sum()) for c in set(chrom_of)}
        with np.errstate(all="ignore"):
            cw = 1.0 / np.array([(1 - sizes[c] / n) for c in chrom_of], dtype=float)
    info["cweights"] = cw

    def sweep(sel):
        var = np.nan
        nz = np.array([])
        vs = []
        for _ in range(max_iters):
            with np.errstate(all="ignore"):
                b = bias[sel] * cw[sel]
                marg = (b[:, None] * G[np.ix_(sel, sel)] * b[None, :]).sum(1)
            nz = marg[marg != 0]
            if not len(nz):
                bias[sel] = np.nan
                info["sweep_vars"].append(vs)
                return np.nan, 0.0
            mm = marg / nz.mean()
            mm[mm == 0] = 1
            bias[sel] = bias[sel] / mm
            var = nz.var()
            vs.append(float(var))
            if var < tol:
                break
        info["sweep_vars"].append(vs)
        scale = nz.mean()
        b = bias[sel]
        b[b == 0] = np.nan
        if rescale:
            b = b / np.sqrt(scale)
        bias[sel] = b
        return scale, var

    if mode == "cis":
        scales, vars_ = [], []
        for c in sorted(set(chrom_of)):
            s, v = sweep(np.where(ch == c)[0])
            scales.append(s)
            vars_.append(v)
        return bias, np.array(scales), np.array(vars_), info
    s, v = sweep(np.arange(n))
    return bias, s, v, info


def row_sums(A, chrom_of, mode, ignore_diags, w, double_diag=False, cweights=None):
    """row sums of diag(w) F diag(w) with F the filtered dense matrix (cis / trans part, diagonals dropped,
    rows and columns of NaN-weighted bins zeroed)"""
    F, same = filtered(A, chrom_of, mode, ignore_diags, double_diag)
    if mode == "trans":
        F[same] = 0
    ok = ~np.isnan(w)
    W = np.where(ok, w, 0.0)
    if cweights is not None:
        W = W * np.where(np.isfinite(cweights), cweights, 0.0)
    B = W[:, None] * F * W[None, :]
    return B.sum(1), F
