"""E3/E4 seams: a choice-sequence (stateless) explorer, VirtualPool, VirtualLock and the h5py call
monitor / fault injector.  Everything is taken from outside the repository by patching module
attributes; a missing attribute is a HarnessError (exit 2), never a VIOLATION."""
from __future__ import annotations

import itertools
import types
import weakref

import dill

from vmc.core.rec import HarnessError


# ---- stateless explorer ---------------------------------------------------------------------------
class Choices:
    """One execution: replays `prefix`, then takes choice 0 (the default answer) at every later point."""

    def __init__(self, prefix=()):
        self.prefix = list(prefix)
        self.trace = []          # (n_options, chosen, label)

    def choose(self, n, label=""):
        i = len(self.trace)
        c = self.prefix[i] if i < len(self.prefix) else 0
        if c >= n:
            raise HarnessError(f"replay diverged at choice point {i} ({label}): wanted {c} of {n}")
        self.trace.append((n, c, label))
        return c

    def deviations(self, upto=None):
        return sum(1 for (_, c, _) in self.trace[:upto] if c != 0)


def explore(run, bound, max_execs=100000):
    """Deviation-bounded DFS (iterative context bounding): run(Choices) executes the system once.
    Yields (choices, result) for EVERY execution with <= bound non-default choices. -> generator"""
    stack = [[]]
    n = 0
    while stack:
        prefix = stack.pop()
        ch = Choices(prefix)
        res = run(ch)
        n += 1
        if n > max_execs:
            raise HarnessError(f"exploration exceeded {max_execs} executions")
        yield ch, res
        # a replayed prefix must have been consumed entirely
        if len(ch.trace) < len(prefix):
            raise HarnessError(f"replay diverged: prefix of {len(prefix)} choices, execution made only {len(ch.trace)}")
        for i in range(len(prefix), len(ch.trace)):
            nopt = ch.trace[i][0]
            if nopt <= 1:
                continue
            if ch.deviations(i) + 1 > bound:
                continue
            base = [c for (_, c, _) in ch.trace[:i]]
            for alt in range(1, nopt):
                stack.append(base + [alt])


# ---- virtual lock -----------------------------------------------------------------------------------
class Deadlock(Exception):
    pass


class VirtualLock:
    """Single OS thread: an acquire while held can never succeed -> reported as deadlock."""

    def __init__(self, mon=None):
        self.held = False
        self.mon = mon
        self.nacq = 0

    def acquire(self, *a, **k):
        if self.held:
            if self.mon is not None:
                self.mon.flag("deadlock: acquire while the lock is already held")
            raise Deadlock("acquire while held")
        self.held = True
        self.nacq += 1
        return True

    def release(self):
        if not self.held:
            if self.mon is not None:
                self.mon.flag("release of a lock that is not held")
            raise RuntimeError("release unlocked lock")
        self.held = False
        if self.mon is not None:
            self.mon.on_release()

    def __enter__(self):
        self.acquire()
        return self

    def __exit__(self, *a):
        self.release()


# ---- monitor -------------------------------------------------------------------------------------------
class Monitor:
    """Protocol monitor for 'readers in worker tasks vs. one writer' (cooler.parallel docstring, reason 1)."""

    def __init__(self):
        self.flags = []
        self.lock = None
        self.pools = []
        self.write_open = 0        # number of h5py.File objects currently open in a writing mode
        self.require_lock = False  # set when a pool with >1 workers is in use
        self.events = 0

    def flag(self, msg):
        if msg not in self.flags:
            self.flags.append(msg)

    def pending(self):
        return sum(p.pending() for p in self.pools)

    # Only the essential exclusion is demanded (reads by worker tasks never overlap a writing open of the file); HOW
    # the code achieves it (who holds which lock when) is left open so that a correct refactoring is never flagged.
    def on_task_run(self):
        self.events += 1
        if self.write_open:
            self.flag("a worker task reads while the file is open for writing")

    def on_write_open(self):
        self.events += 1
        if self.pending():
            self.flag("file opened for writing while submitted worker tasks are still pending (a real pool runs them concurrently)")

    def on_release(self):
        pass


# ---- virtual pool --------------------------------------------------------------------------------------
def _rt(x):
    return dill.loads(dill.dumps(x))


class VirtualPool:
    """In-process stand-in for multiprocess.Pool: every function and argument goes through a dill round trip
    (tasks work on COPIES, as in a real pool); execution / completion order is an explorer choice."""

    choices = None     # Choices of the current execution (set by the harness)
    mon = None
    created = []

    def __init__(self, processes=None, *a, **k):
        self.n = processes or 1
        self._pending = 0
        self.closed = False
        VirtualPool.created.append(self)
        if self.mon is not None:
            self.mon.pools.append(self)
            if self.n > 1:
                self.mon.require_lock = True

    def pending(self):
        return self._pending

    def _perm(self, k, label):
        """execution / completion order of a batch of k tasks: ALL k! orders for k <= 4; above that a fixed menu of 7
        structurally different orders (identity, reversed, two rotations, two adjacent swaps, evens-then-odds)"""
        if k <= 1:
            return list(range(k))
        if k <= 4:
            perms = [list(p) for p in itertools.permutations(range(k))]
        else:
            ident = list(range(k))
            perms = [ident, ident[::-1], ident[1:] + ident[:1], ident[-1:] + ident[:-1], [1, 0] + ident[2:],
                     ident[:-2] + [k - 1, k - 2], ident[0::2] + ident[1::2]]
        ch = self.choices.choose(len(perms), label) if self.choices is not None else 0
        return list(perms[ch])

    def _run(self, fb, item):
        if self.mon is not None:
            self.mon.on_task_run()
        g = dill.loads(fb)
        return _rt(g(_rt(item)))

    def map(self, f, items, chunksize=None):
        items = list(items)
        fb = dill.dumps(f)
        order = self._perm(len(items), f"map[{len(items)}]:execution-order")
        res = [None] * len(items)
        self._pending = len(items)
        for k in order:
            res[k] = self._run(fb, items[k])
            self._pending -= 1
        return res

    def imap(self, f, items, chunksize=1):
        items = list(items)
        fb = dill.dumps(f)
        eager = (self.choices.choose(2, "imap:lazy|eager") if self.choices is not None else 0) == 1
        order = self._perm(len(items), f"imap[{len(items)}]:execution-order")
        self._pending = len(items)
        if eager:
            res = {}
            for k in order:
                res[k] = self._run(fb, items[k])
                self._pending -= 1
            return iter([res[k] for k in range(len(items))])

        def gen():
            done = {}
            todo = list(order)
            for want in range(len(items)):
                while want not in done:
                    k = todo.pop(0)
                    done[k] = self._run(fb, items[k])
                    self._pending -= 1
                yield done.pop(want)
        return gen()

    def imap_unordered(self, f, items, chunksize=1):
        items = list(items)
        fb = dill.dumps(f)
        eager = (self.choices.choose(2, "imap_unordered:lazy|eager") if self.choices is not None else 0) == 1
        order = self._perm(len(items), f"imap_unordered[{len(items)}]:completion-order")
        self._pending = len(items)
        if eager:
            out = []
            for k in order:
                out.append(self._run(fb, items[k]))
                self._pending -= 1
            return iter(out)

        def gen():
            for k in order:
                r = self._run(fb, items[k])
                self._pending -= 1
                yield r
        return gen()

    def close(self):
        self.closed = True

    def terminate(self):
        self.closed = True

    def join(self):
        pass

    def __enter__(self):
        return self

    def __exit__(self, *a):
        self.close()


# ---- h5py instrumentation ------------------------------------------------------------------------------
class Fault(OSError):
    pass


class H5Hook:
    """Wraps the h5py Python API once per process. Off by default. Gives (a) write-open tracking for the Monitor,
    (b) the call log of a write path, (c) one injected Fault at call k."""

    installed = False
    on = False
    log = []
    fail_at = None
    count = 0
    mon = None
    _open_writers = None

    @classmethod
    def install(cls):
        if cls.installed:
            return
        import h5py
        import h5py._hl.attrs as At
        import h5py._hl.dataset as D
        import h5py._hl.files as Fi
        import h5py._hl.group as G
        cls._open_writers = weakref.WeakSet()

        def step(label):
            if cls.on:
                cls.count += 1
                cls.log.append(label)
                if cls.fail_at is not None and cls.count == cls.fail_at:
                    raise Fault(f"injected fault at h5py call {cls.count} ({label})")

        o_init = Fi.File.__init__

        def init(self, name, mode="r", *a, **k):
            ispath = isinstance(name, (str, bytes)) or hasattr(name, "__fspath__")
            if ispath:
                step(f"File({mode})")
            o_init(self, name, mode, *a, **k)
            if ispath and mode != "r":
                cls._open_writers.add(self)
                if cls.mon is not None:
                    cls.mon.write_open = sum(1 for f in cls._open_writers if f.id.valid)
                    cls.mon.on_write_open()
        Fi.File.__init__ = init

        o_close = Fi.File.close

        def close(self, *a, **k):
            r = o_close(self, *a, **k)
            if cls.mon is not None:
                cls.mon.write_open = sum(1 for f in cls._open_writers if f.id.valid)
            return r
        Fi.File.close = close

        def wrap(klass, name, label):
            if not hasattr(klass, name):
                raise HarnessError(f"seam missing: h5py {klass.__name__}.{name}")
            o = getattr(klass, name)

            def w(self, *a, **k):
                step(label)
                return o(self, *a, **k)
            w.__name__ = name
            setattr(klass, name, w)

        for klass, name, label in [(D.Dataset, "__setitem__", "Dataset.write"), (D.Dataset, "resize", "Dataset.resize"),
                                   (G.Group, "create_dataset", "Group.create_dataset"), (G.Group, "create_group", "Group.create_group"),
                                   (G.Group, "__setitem__", "Group.link"), (G.Group, "__delitem__", "Group.delete"),
                                   (G.Group, "copy", "Group.copy"), (At.AttributeManager, "__setitem__", "Attr.set"),
                                   (At.AttributeManager, "create", "Attr.create")]:
            wrap(klass, name, label)
        cls.installed = True

    @classmethod
    def start(cls, fail_at=None, mon=None):
        cls.install()
        cls.on = True
        cls.log = []
        cls.count = 0
        cls.fail_at = fail_at
        cls.mon = mon

    @classmethod
    def stop(cls):
        cls.on = False
        cls.fail_at = None
        cls.mon = None
        n, log = cls.count, cls.log
        return n, log


def patch_reduce(mon, choices):
    """Install VirtualPool / VirtualLock into cooler._reduce and cooler.parallel. -> restore()"""
    import cooler._reduce as Rm
    import cooler.parallel as Pm
    for mod, att in ((Rm, "mp"), (Rm, "lock"), (Pm, "lock")):
        if not hasattr(mod, att):
            raise HarnessError(f"seam missing: {mod.__name__}.{att}")
    if not hasattr(Rm.mp, "Pool"):
        raise HarnessError("seam missing: cooler._reduce.mp.Pool")
    saved = (Rm.mp, Rm.lock, Pm.lock)
    vl = VirtualLock(mon)
    mon.lock = vl
    VirtualPool.choices = choices
    VirtualPool.mon = mon
    VirtualPool.created = []
    Rm.mp = types.SimpleNamespace(Pool=VirtualPool, cpu_count=saved[0].cpu_count)
    Rm.lock = vl
    Pm.lock = vl

    def restore():
        Rm.mp, Rm.lock, Pm.lock = saved
        VirtualPool.choices = None
        VirtualPool.mon = None
    return vl, restore
