"""Shared alphabets (DESIGN §2). Pure Python, no cooler import. Everything is enumerated in a
canonical simplest-first order and never sampled."""
from __future__ import annotations

import itertools

NAMES = {
    "abc": ["a", "b", "c", "d"],                 # lexical order == table order
    "chr": ["chr2", "chr10", "chr1", "chrM"],    # lexical order != table order
    "num": ["2", "10", "1", "3"],                # names that look like numbers
}


# ---- bin tables -------------------------------------------------------------------------------
# a table is a tuple of chromosomes, a chromosome is a tuple of bin widths (bins contiguous from 0)
def bin_tables(C, B, W=(1, 2, 3)):
    """All tables with 1..C chromosomes, <= B bins in total, widths from W."""
    out = []
    for total in range(1, B + 1):
        for c in range(1, min(C, total) + 1):
            for counts in _compositions_k(total, c):
                per = [list(itertools.product(W, repeat=k)) for k in counts]
                for combo in itertools.product(*per):
                    out.append(tuple(combo))
    return out


def _compositions_k(total, k):
    if k == 1:
        yield (total,)
        return
    for first in range(1, total - k + 2):
        for rest in _compositions_k(total - first, k - 1):
            yield (first,) + rest


def table_bins(table, names="abc"):
    """-> list of (chrom, start, end)"""
    nm = NAMES[names] if isinstance(names, str) else names
    out = []
    for ci, widths in enumerate(table):
        pos = 0
        for w in widths:
            out.append((nm[ci], pos, pos + w))
            pos += w
    return out


def table_nbins(table):
    return sum(len(c) for c in table)


def chrom_class(widths):
    """class of one chromosome w.r.t. the get_binsize question"""
    k = len(widths)
    if k == 1:
        return "one"
    body = set(widths[:-1])
    if len(body) > 1:
        return "var"
    b = widths[0]
    last = widths[-1]
    return "uni=" if last == b else ("uni<" if last < b else "uni>")


def table_class(table):
    return (len(table), tuple(min(len(c), 3) for c in table), tuple(chrom_class(c) for c in table),
            len({c[0] for c in table if len(c) > 1}) <= 1)


def bt_rep(C=3, B=6, W=(1, 2, 3)):
    """One table (the first in canonical order) per class of table_class(): number of chromosomes,
    per-chromosome bin count capped at 3, per-chromosome uniformity class (one bin / uniform with
    equal, shorter, longer last bin / variable), and whether all multi-bin chromosomes share the first
    width.  The class function is part of the evidence."""
    seen, out = set(), []
    for t in bin_tables(C, B, W):
        k = table_class(t)
        if k not in seen:
            seen.add(k)
            out.append(t)
    return out


# ---- matrices ---------------------------------------------------------------------------------
def cells(n, symm):
    return [(i, j) for i in range(n) for j in range(n) if (i <= j or not symm)]


def pattern_cells(n, symm, pat):
    cs = cells(n, symm)
    return [c for k, c in enumerate(cs) if pat >> k & 1]


def npatterns(n, symm):
    return 1 << len(cells(n, symm))


def value(n, i, j):
    return 1 + i * n + j


def structured(n, symm=True):
    """MXs(n): structured family of cell lists (deduplicated, canonical order)."""
    allc = cells(n, symm)
    fam = []

    def add(name, cs):
        cs = sorted(set(c for c in cs if c in set(allc)))
        if all(cs != f[1] for f in fam):
            fam.append((name, cs))

    add("empty", [])
    add("full", allc)
    add("diag", [(i, i) for i in range(n)])
    add("off1", [(i, i + 1) for i in range(n - 1)])
    add("off2", [(i, i + 2) for i in range(n - 2)])
    for r in range(n):
        add(f"row{r}", [(r, j) for j in range(n)])
    for c in range(n):
        add(f"col{c}", [(i, c) for i in range(n)])
    add("lead_empty", [c for c in allc if c[0] >= 2])
    add("trail_empty", [c for c in allc if c[0] < n - 2])
    add("mid_empty", [c for c in allc if c[0] not in (n // 2, n // 2 - 1)])
    add("checker", [c for c in allc if (c[0] + c[1]) % 2 == 0])
    add("checker1", [c for c in allc if (c[0] + c[1]) % 2 == 1])
    add("corners", [(0, 0), (0, n - 1), (n - 1, n - 1), (n - 1, 0)])
    add("lastrow", [(n - 1, n - 1)])
    add("sparse3", [c for k, c in enumerate(allc) if k % 3 == 0])
    return fam


# ---- windows ----------------------------------------------------------------------------------
def intervals(n):
    return [(a, b) for a in range(n + 1) for b in range(a, n + 1)]


def window_class(i0, i1, j0, j1):
    if i0 == i1 or j0 == j1:
        return "empty"
    if (i0, i1) == (j0, j1):
        return "diag-square"
    if i1 <= j0:
        return "above"
    if j1 <= i0:
        return "below"
    if i0 == j0:
        return "anchored"
    if i1 == j1:
        return "end-anchored"
    if j0 < i0 and i1 < j1:
        return "i-in-j"
    if i0 < j0 and j1 < i1:
        return "j-in-i"
    return "overlap-upper" if i0 < j0 else "overlap-lower"


# ---- chunkings --------------------------------------------------------------------------------
def compositions(m):
    """all ways to cut range(m) into consecutive non-empty chunks -> list of lists of (lo, hi)"""
    if m == 0:
        return [[]]
    out = []
    for mask in range(1 << (m - 1)):
        cuts = [0] + [k + 1 for k in range(m - 1) if mask >> k & 1] + [m]
        out.append(list(zip(cuts[:-1], cuts[1:])))
    out.sort(key=lambda c: (len(c), c))
    return out


def with_empty_chunks(comp):
    """the composition itself plus one empty chunk inserted at each gap"""
    yield list(comp)
    for g in range(len(comp) + 1):
        at = comp[g][0] if g < len(comp) else (comp[-1][1] if comp else 0)
        yield comp[:g] + [(at, at)] + comp[g:]


def ordered_set_partitions(m):
    """all ordered partitions of range(m) into non-empty blocks (1, 3, 13, 75, 541 ...)"""
    if m == 0:
        return [[]]
    out = []

    def rec(remaining, acc):
        if not remaining:
            out.append(list(acc))
            return
        rem = sorted(remaining)
        for r in range(1, len(rem) + 1):
            for block in itertools.combinations(rem, r):
                rec(remaining - set(block), acc + [list(block)])

    rec(set(range(m)), [])
    out.sort(key=lambda p: (len(p), p))
    return out
