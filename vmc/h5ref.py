"""Raw-h5py view of cooler collections: reader, schema validator V (DESIGN §1.4, C02) and the
canonical form of a whole file (DESIGN §1.3).  Never calls into cooler."""
from __future__ import annotations

import hashlib
import json

import h5py
import numpy as np

from vmc import models

VOLATILE = ("creation-date", "generated-by")


def _dec(x):
    if isinstance(x, bytes):
        return x.decode("utf-8")
    if isinstance(x, np.generic):
        return x.item()
    return x


def read_collection(path, group="/"):
    """-> dict(bins=[(chromname, start, end)], chroms=[(name, length)], pix={(i,j): {col: v}},
    order=[(i,j)...], cols=[...], attrs={...}, raw={...})"""
    with h5py.File(path, "r") as f:
        return read_group(f[group])


def read_group(g):
    out = {}
    names = [_dec(x) for x in g["chroms/name"][:]]
    lengths = [int(x) for x in g["chroms/length"][:]]
    out["chroms"] = list(zip(names, lengths))
    cid = g["bins/chrom"][:]
    st = g["bins/start"][:]
    en = g["bins/end"][:]
    out["bins"] = [(names[int(c)] if 0 <= int(c) < len(names) else ("?%d" % int(c)), int(s), int(e))
                   for c, s, e in zip(cid, st, en)]
    out["bin_chrom_ids"] = [int(c) for c in cid]
    out["bincols"] = {k: g["bins"][k][:] for k in g["bins"] if k not in ("chrom", "start", "end")}
    cols = [k for k in g["pixels"] if k not in ("bin1_id", "bin2_id")]
    b1 = g["pixels/bin1_id"][:]
    b2 = g["pixels/bin2_id"][:]
    vals = {k: g["pixels"][k][:] for k in cols}
    out["cols"] = cols
    out["order"] = [(int(a), int(b)) for a, b in zip(b1, b2)]
    out["lens"] = {"bin1_id": len(b1), "bin2_id": len(b2), **{k: len(v) for k, v in vals.items()}}
    pix = {}
    m = min([len(b1), len(b2)] + [len(v) for v in vals.values()])
    for r in range(m):
        pix.setdefault((int(b1[r]), int(b2[r])), []).append({k: vals[k][r].item() for k in cols})
    out["pixrows"] = pix
    out["dtypes"] = {k: g["pixels"][k].dtype.str for k in g["pixels"]}
    out["attrs"] = {k: _dec(v) for k, v in g.attrs.items()}
    out["bin1_offset"] = [int(x) for x in g["indexes/bin1_offset"][:]]
    out["chrom_offset"] = [int(x) for x in g["indexes/chrom_offset"][:]]
    return out


def pixdict(col, rd, field="count"):
    """{(i,j): value} of one field (first row wins; duplicates are V's business)"""
    return {k: rows[0][field] for k, rows in rd["pixrows"].items()}


def validate(path, group="/", fast=False):
    """Schema validator V. -> list of violated clauses (strings); [] = valid."""
    try:
        with h5py.File(path, "r") as f:
            if group not in f:
                return ["V:group-missing"]
            return validate_group(f[group])
    except Exception as e:  # unreadable structure is a violation of V, not a harness error
        return [f"V:unreadable:{type(e).__name__}:{e!s:.100}"]


def validate_group(g):
    bad = []
    for need in ("chroms/name", "chroms/length", "bins/chrom", "bins/start", "bins/end",
                 "pixels/bin1_id", "pixels/bin2_id", "indexes/bin1_offset", "indexes/chrom_offset"):
        if need not in g:
            bad.append("V:missing:" + need)
    if bad:
        return bad
    at = {k: _dec(v) for k, v in g.attrs.items()}
    for need in ("format", "format-version", "bin-type", "bin-size", "storage-mode", "nbins", "nchroms", "nnz"):
        if need not in at:
            bad.append("V:attr-missing:" + need)
    if bad:
        return bad
    if at["format"] != "HDF5::Cooler":
        bad.append("V:format")
    if at["storage-mode"] not in ("symmetric-upper", "square"):
        bad.append("V:storage-mode")
    names = g["chroms/name"][:]
    lengths = g["chroms/length"][:].astype(np.int64)
    cid = g["bins/chrom"][:].astype(np.int64)
    st = g["bins/start"][:].astype(np.int64)
    en = g["bins/end"][:].astype(np.int64)
    nb, nc = len(cid), len(names)
    if not (len(st) == len(en) == nb):
        bad.append("V:bin-columns-length")
        return bad
    for k in g["bins"]:
        if len(g["bins"][k]) != nb:
            bad.append("V:bin-column-length:" + k)
    if len(lengths) != nc:
        bad.append("V:chrom-columns-length")
    if at["nbins"] != nb:
        bad.append("V:nbins")
    if at["nchroms"] != nc:
        bad.append("V:nchroms")
    # pixel columns
    lens = {k: len(g["pixels"][k]) for k in g["pixels"]}
    nnz = lens["bin1_id"]
    if len(set(lens.values())) != 1:
        bad.append("V:pixel-columns-length:%r" % lens)
        return bad
    if at["nnz"] != nnz:
        bad.append("V:nnz-attr:%r!=%r" % (at["nnz"], nnz))
    b1 = g["pixels/bin1_id"][:].astype(np.int64)
    b2 = g["pixels/bin2_id"][:].astype(np.int64)
    if nnz:
        if b1.min() < 0 or b2.min() < 0 or b1.max() >= nb or b2.max() >= nb:
            bad.append("V:bin-id-range")
        key = b1 * (max(nb, int(b2.max()) + 1) + 1) + b2
        if np.any(np.diff(key) <= 0):
            bad.append("V:not-strictly-sorted")
        if at["storage-mode"] == "symmetric-upper" and np.any(b1 > b2):
            bad.append("V:lower-triangle-in-symmetric-upper")
    # indexes
    off = g["indexes/bin1_offset"][:].astype(np.int64)
    exp = np.searchsorted(np.sort(b1), np.arange(nb + 1), side="left") if nnz else np.zeros(nb + 1, dtype=np.int64)
    if nb + 1 <= 64:
        exp2 = models.ref_indptr([int(x) for x in b1], nb)
        if list(exp) != exp2:
            exp = np.array(exp2)
    if len(off) != nb + 1 or not np.array_equal(off, exp):
        bad.append("V:bin1_offset")
    coff = g["indexes/chrom_offset"][:].astype(np.int64)
    cexp = np.array(models.ref_indptr([int(x) for x in cid], nc)) if nb <= 4096 else np.searchsorted(cid, np.arange(nc + 1))
    if len(coff) != nc + 1 or not np.array_equal(coff, cexp):
        bad.append("V:chrom_offset")
    # bins contiguous per chromosome, sorted by chromosome, lengths
    if nb:
        if np.any(np.diff(cid) < 0) or cid.min() < 0 or cid.max() >= nc:
            bad.append("V:bins-not-sorted-by-chrom")
        else:
            binsl = [(int(c), int(s), int(e)) for c, s, e in zip(cid, st, en)] if nb <= 4096 else None
            ok = True
            for c in range(nc):
                idx = np.nonzero(cid == c)[0]
                if len(idx) == 0:
                    continue
                s, e = st[idx], en[idx]
                if s[0] != 0 or np.any(s[1:] != e[:-1]) or np.any(e <= s):
                    ok = False
                if c < len(lengths) and e[-1] != lengths[c]:
                    bad.append("V:chrom-length!=last-bin-end")
                    break
            if not ok:
                bad.append("V:bins-not-contiguous-from-0")
            if binsl is not None and ok:
                bt, bs = at["bin-type"], at["bin-size"]
                if bt == "fixed":
                    if not models.ref_binsize_ok(binsl, bs if not isinstance(bs, str) else None):
                        bad.append("V:bin-size-attr-false:%r" % (bs,))
                elif bt == "variable":
                    if bs != "null":
                        bad.append("V:variable-with-bin-size:%r" % (bs,))
                else:
                    bad.append("V:bin-type:%r" % (bt,))
    if "count" in g["pixels"] and "sum" in at:
        cnt = g["pixels/count"][:]
        if cnt.dtype.kind in "iu":
            tot = int(cnt.astype(object).sum()) if nnz else 0
            if at["sum"] != tot:
                bad.append("V:sum-attr:%r!=%r" % (at["sum"], tot))
        else:
            tot = float(cnt.astype(np.float64).sum())
            if not np.isclose(float(at["sum"]), tot, rtol=1e-9, atol=1e-9):
                bad.append("V:sum-attr:%r!=%r" % (at["sum"], tot))
    return bad


# ---- canonical form of a file --------------------------------------------------------------------
def canon(path, skip=(), volatile=VOLATILE):
    """Sorted walk of the whole tree: path, kind, dtype/shape/bytes, attrs minus volatile ones,
    hard-link sharing by first-visit numbering of object addresses.  `skip`: subtree paths left out."""
    items = []
    addr_no = {}

    def skipped(p):
        return any(p == s or p.startswith(s.rstrip("/") + "/") for s in skip)

    def attrs_of(obj):
        out = []
        for k in sorted(obj.attrs.keys()):
            if k in volatile:
                continue
            v = obj.attrs[k]
            if isinstance(v, np.ndarray):
                v = (v.dtype.str, v.shape, v.tobytes().hex())
            else:
                v = repr(_dec(v))
            out.append((k, v))
        return out

    def walk(grp, p, depth=0):
        if depth > 12:
            items.append((p, "too-deep"))
            return
        for name in sorted(grp.keys()):
            q = (p.rstrip("/") + "/" + name)
            if skipped(q):
                continue
            lk = grp.get(name, getlink=True)
            if isinstance(lk, h5py.SoftLink):
                items.append((q, "soft", lk.path))
                continue
            if isinstance(lk, h5py.ExternalLink):
                items.append((q, "external", lk.filename.split("/")[-1], lk.path))
                continue
            obj = grp[name]
            a = h5py.h5o.get_info(obj.id).addr
            first = a not in addr_no
            no = addr_no.setdefault(a, len(addr_no))
            if isinstance(obj, h5py.Dataset):
                if first:
                    data = obj[()]
                    enum = h5py.check_enum_dtype(obj.dtype)
                    items.append((q, "dataset", no, obj.dtype.str, repr(sorted(enum.items())) if enum else "",
                                  obj.shape, hashlib.md5(np.ascontiguousarray(data).tobytes()).hexdigest(), attrs_of(obj)))
                else:
                    items.append((q, "dataset-link", no))
            else:
                if first:
                    items.append((q, "group", no, attrs_of(obj)))
                    walk(obj, q, depth + 1)
                else:
                    items.append((q, "group-link", no))

    with h5py.File(path, "r") as f:
        addr_no[h5py.h5o.get_info(f.id).addr] = 0
        if not skipped("/"):
            items.append(("/", "group", 0, attrs_of(f)))
        walk(f, "/")
    return items


def canon_hash(path, skip=()):
    return hashlib.md5(json.dumps(canon(path, skip), sort_keys=True, default=repr).encode()).hexdigest()
