"""Reference models (DESIGN §3). Deliberately dumb; never imports cooler."""
from __future__ import annotations

import itertools
from fractions import Fraction


# ---- bins ------------------------------------------------------------------------------------
def ref_bin_of(bins, chrom, pos):
    """bins: list of (chrom, start, end) -> index of the bin with start <= pos < end, else None"""
    for k, (c, s, e) in enumerate(bins):
        if c == chrom and s <= pos < e:
            return k
    return None


def ref_cover(bins, chrom, s, e):
    """indices of bins of `chrom` overlapping [s, e) (s < e)"""
    return [k for k, (c, bs, be) in enumerate(bins) if c == chrom and bs < e and be > s]


def ref_chromsizes(bins):
    out = {}
    for c, s, e in bins:
        out[c] = max(out.get(c, 0), e)
    return out


def ref_true_binsize(bins):
    """b iff every bin is [k*b, min((k+1)*b, L)), else None.  A genome made only of one-bin
    chromosomes is consistent with every b >= max length: we return the set of consistent values
    via ref_binsize_ok() instead."""
    cands = set()
    sizes = ref_chromsizes(bins)
    first = bins[0][2] - bins[0][1]
    for b in {e - s for _, s, e in bins}:
        if ref_binsize_ok(bins, b):
            cands.add(b)
    if not cands:
        return None
    return min(cands)


def ref_binsize_ok(bins, b):
    if not isinstance(b, int) or isinstance(b, bool) or b <= 0:
        return False
    sizes = ref_chromsizes(bins)
    per = {}
    for c, s, e in bins:
        per.setdefault(c, []).append((s, e))
    for c, lst in per.items():
        L = sizes[c]
        for k, (s, e) in enumerate(lst):
            if s != k * b or e != min((k + 1) * b, L):
                return False
    return True


def ref_binnify(chromsizes, w):
    """chromsizes: list of (name, length)"""
    out = []
    for c, L in chromsizes:
        k = 0
        while k * w < L:
            out.append((c, k * w, min((k + 1) * w, L)))
            k += 1
    return out


# ---- matrices ---------------------------------------------------------------------------------
def ref_full(n, pix, symm):
    """pix: dict (i,j)->value ; -> dense list of lists"""
    M = [[0] * n for _ in range(n)]
    for (i, j), v in pix.items():
        M[i][j] = v
        if symm and i != j:
            M[j][i] = v
    return M


def ref_window(M, i0, i1, j0, j1):
    return [row[j0:j1] for row in M[i0:i1]]


def ref_indptr(ids, n):
    """offsets[k] = number of entries with id < k, for k = 0..n"""
    out = [0] * (n + 1)
    for k in range(n + 1):
        out[k] = sum(1 for x in ids if x < k)
    return out


def ref_rle(seq):
    starts, lengths, values = [], [], []
    pos = 0
    for v, grp in itertools.groupby(seq):
        k = len(list(grp))
        starts.append(pos)
        lengths.append(k)
        values.append(v)
        pos += k
    return starts, lengths, values


def ref_aggregate(records, agg="sum"):
    """records: iterable of ((i, j), value) -> dict"""
    acc = {}
    for key, v in records:
        acc.setdefault(key, []).append(v)
    f = {"sum": sum, "min": min, "max": max, "first": lambda l: l[0], "last": lambda l: l[-1],
         "mean": lambda l: sum(l) / len(l), "count": len, "size": len, "nunique": lambda l: len(set(l)),
         "sum+1000": lambda l: sum(l) + 1000}[agg]
    return {k: f(l) for k, l in acc.items()}


def ref_merge(pixdicts, agg="sum"):
    return ref_aggregate(((k, v) for d in pixdicts for k, v in d.items()), agg)


def ref_coarsen_bins(bins, k):
    """groups of k consecutive bins per chromosome -> (newbins, old->new map)"""
    new, mp = [], []
    cur_c, rank = None, 0
    for c, s, e in bins:
        if c != cur_c:
            cur_c, rank = c, 0
        if rank % k == 0:
            new.append([c, s, e])
        else:
            new[-1][2] = e
        mp.append(len(new) - 1)
        rank += 1
    return [tuple(b) for b in new], mp


def ref_coarsen(bins, pix, k, agg="sum"):
    newbins, mp = ref_coarsen_bins(bins, k)
    return newbins, ref_aggregate((((mp[i], mp[j]), v) for (i, j), v in sorted(pix.items())), agg)


# ---- region strings ----------------------------------------------------------------------------
_UNITS = {"k": 10 ** 3, "m": 10 ** 6, "g": 10 ** 9}


class Refuse(Exception):
    pass


def ref_number(tok):
    """exact value of a coordinate token: digits with optional thousands separators, optional decimal
    part, optional unit k/m/g optionally followed by b (case-insensitive). Must denote an integer."""
    t = tok.strip()
    if not t:
        raise Refuse("empty")
    low = t.lower()
    mult = 1
    if low.endswith("b") and len(low) >= 2 and low[-2] in _UNITS:
        mult = _UNITS[low[-2]]
        low = low[:-2]
    elif low[-1] in _UNITS:
        mult = _UNITS[low[-1]]
        low = low[:-1]
    low = low.replace(",", "")
    if not low or any(ch not in "0123456789." for ch in low) or low.count(".") > 1 or low == ".":
        raise Refuse("not a number: %r" % tok)
    val = Fraction(low) * mult
    if val.denominator != 1:
        raise Refuse("not an integer")
    return int(val)


def ref_region_string(s):
    """'name', 'name:start-end', 'name:start-' -> (name, start|None, end|None)"""
    if ":" not in s:
        name = s
        if not name.strip():
            raise Refuse("empty name")
        return (name, None, None)
    name, _, rng = s.partition(":")
    if not name.strip():
        raise Refuse("empty name")
    if ":" in rng:
        raise Refuse("second colon")
    if "-" not in rng:
        raise Refuse("missing hyphen")
    a, _, b = rng.partition("-")
    if "-" in b:
        raise Refuse("negative or stray hyphen")
    start = ref_number(a)
    end = ref_number(b) if b.strip() else None
    if end is not None and end < start:
        raise Refuse("reversed")
    return (name, start, end)
