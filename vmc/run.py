"""Driver: ./check <ID> [--tier quick|thorough] [--replay FILE] [--workers N] | --selftest

Enumerates the units of a check in canonical (simplest-first) order, deals them to forked workers,
merges the recorders deterministically, triages mismatches against known_findings.json, writes the
evidence file and prints VIOLATION / KNOWN-FINDING lines.  VERIF_SEED only rotates the dealing order
and the choice of printed samples: every seed covers the identical set of cases.
"""
from __future__ import annotations

import argparse
import hashlib
import importlib
import json
import multiprocessing
import os
import signal
import sys
import time
import traceback

from vmc.core import scratch
from vmc.core.rec import HarnessError, Rec, jsonable

HERE = os.path.dirname(os.path.dirname(os.path.abspath(__file__)))
UNIT_TIMEOUT = int(os.environ.get("VMC_UNIT_TIMEOUT", "0"))      # 0 = by tier: 900 s (quick), 3600 s (thorough); the longest units take < 60 s / < 400 s
ALL_IDS = ["C%02d" % i for i in range(1, 21)]


class UnitTimeout(BaseException):
    pass


def _alarm(signum, frame):
    raise UnitTimeout()


def assert_repo():
    import cooler
    src = os.environ.get("VMC_REPO_SRC", "/repo/src")
    f = os.path.realpath(cooler.__file__)
    if not f.startswith(os.path.realpath(src) + os.sep):
        raise HarnessError(f"cooler imported from {f}, expected under {src}")


def load(pid):
    return importlib.import_module("vmc.checks." + pid.lower())


def run_unit(mod, unit, idx, tier, only=None):
    U = Rec()
    U.classify = getattr(mod, "classify", None)
    U.order = (idx, 0)
    U.unit = unit
    U.only = only
    signal.signal(signal.SIGALRM, _alarm)
    limit = UNIT_TIMEOUT or (3600 if tier == "thorough" else 900)
    signal.alarm(limit)
    t0 = time.time()
    try:
        mod.run(unit, U, tier, only)
    except HarnessError:
        raise
    except UnitTimeout:
        U.mismatch("hang", only, f"unit did not finish within {limit}s")
    except Exception as e:
        tb = traceback.extract_tb(e.__traceback__)
        where = " <- ".join(f"{os.path.basename(fr.filename)}:{fr.lineno}" for fr in tb[-4:])
        U.mismatch("exception:" + type(e).__name__, only, f"{e!s:.600} @ {where}")
    finally:
        signal.alarm(0)
        if isinstance(unit, dict) and "leg" in unit:
            U.times["leg_ms:" + str(unit["leg"])] += int((time.time() - t0) * 1000)
    return U


def _work(args):
    modname, tier, batch = args
    try:
        mod = load(modname)
        R = Rec()
        nrep = 0
        for idx, unit in batch:
            U = run_unit(mod, unit, idx, tier)
            if idx % 64 == 0 or any(m["finding"] is None for m in U.mismatches):
                # determinism: the same unit must give the same observation digest twice
                U2 = run_unit(mod, unit, idx, tier)
                nrep += 1
                if U.digest() != U2.digest():
                    if U.mismatches or U2.mismatches:
                        # The same unit, executed twice in this process, observed different things AND at least one execution
                        # violated the oracle: the implementation carries state from one call to the next (a cache, a mutated
                        # default, a reused buffer), so what a call returns depends on what ran before it. That is a violation in
                        # its own right; the concrete mismatches of both executions are kept. (A divergence WITHOUT any oracle
                        # mismatch stays a harness error: then it is the harness that is not deterministic.)
                        k1 = {(x["clause"], json.dumps(x["case"], sort_keys=True)) for x in U.mismatches}
                        only_second = [m for m in U2.mismatches if (m["clause"], json.dumps(m["case"], sort_keys=True)) not in k1]
                        U.mismatch("outcome-depends-on-process-history", None,
                                   f"two executions of the unit in one process differ: first {[m['clause'] for m in U.mismatches][:4]} "
                                   f"second {[m['clause'] for m in U2.mismatches][:4]}")
                        U.mismatches.extend(only_second[:4])
                        for m in only_second[:4]:
                            U.mcount[(m["clause"], m["finding"])] += 1
                    else:
                        raise HarnessError(f"nondeterministic unit {unit!r}: {U.c} vs {U2.c}")
            R.merge(U)
        R.c["determinism_replays"] += nrep
        return ("ok", R)
    except HarnessError as e:
        return ("harness", str(e))
    except BaseException as e:  # noqa
        return ("harness", "worker crashed: " + "".join(traceback.format_exception(e))[-3000:])


def known_findings():
    p = os.path.join(HERE, "known_findings.json")
    if not os.path.exists(p):
        return {"open": [], "fixed": []}
    with open(p) as f:
        return json.load(f)


def write_replay(pid, m):
    d = os.path.join(os.environ.get("VMC_REPLAY_DIR") or os.path.join(HERE, "replays"), pid)
    os.makedirs(d, exist_ok=True)
    body = {"property": pid, "clause": m["clause"], "case": m["case"], "detail": m["detail"]}
    h = hashlib.md5(json.dumps(body, sort_keys=True).encode()).hexdigest()[:12]
    path = os.path.join(d, h + ".json")
    with open(path, "w") as f:
        json.dump(body, f, indent=1, sort_keys=True)
    return path


def triage(pid, R, quiet=False):
    """-> (violations, known_seen). Prints the lines."""
    kf = known_findings()
    open_ids = {f["id"]: f for f in kf.get("open", []) if f.get("property") == pid}
    by_sig = {}
    for m in sorted(R.mismatches, key=lambda m: (m["order"], m["clause"])):
        by_sig.setdefault((m["clause"], m["finding"]), m)
    known_seen, viol = {}, []
    for (clause, fid), m in by_sig.items():
        if fid is not None and fid in open_ids:
            known_seen.setdefault(fid, 0)
            known_seen[fid] += R.mcount[(clause, fid)]
        else:
            viol.append(m)
    for fid, n in sorted(known_seen.items()):
        print(f"KNOWN-FINDING: property={pid} {fid}: {open_ids[fid]['what']} ({n} cases in this run)")
    viol.sort(key=lambda m: (m["order"], m["clause"]))
    for m in viol[:8]:
        path = write_replay(pid, m)
        n = R.mcount[(m["clause"], m["finding"])]
        print(f"VIOLATION property={pid} replay={path}")
        if not quiet:
            print(f"   clause={m['clause']} cases={n} first={json.dumps(m['case'])[:400]}")
            print(f"   detail={m['detail'][:600]}")
    nviol = sum(R.mcount[(m["clause"], m["finding"])] for m in viol)
    return nviol, known_seen, len(viol)


def write_evidence(pid, mod, tier, seed, R, wall, nviol, known_seen, nunits, nworkers):
    cov = {
        "evaluations": int(R.c["evaluations"]),
        "distinct_nontrivial": int(R.c["nontrivial"]),
        "rule": getattr(mod, "RULE", "") + ((" || legs added later: " + mod.EXTRA_LEGS) if getattr(mod, "EXTRA_LEGS", "") else ""),
        "samples": R.samples[:4] or [{"note": "no sample recorded"}],
        "states": int(R.c["states"]),
        "transitions": int(R.c["transitions"]),
        "traces_validated_against_impl": int(R.c["traces"]),
        "exhaustive": not R.caps,
        "units": nunits,
        "workers": nworkers,
        "bounds": getattr(mod, "BOUNDS", {}).get(tier, ""),
        "classes": {k: int(v) for k, v in sorted(R.classes.items())},
        "distinct_outcomes": len(R.outcomes),
        "caps_hit": R.caps,
        "determinism_replays": int(R.c["determinism_replays"]),
        "known_findings_seen": {k: int(v) for k, v in known_seen.items()},
        "cpu_ms_per_leg": {k: int(v) for k, v in sorted(R.times.items())},
        "other_counts": {k: int(v) for k, v in sorted(R.c.items())
                         if k not in ("evaluations", "nontrivial", "states", "transitions", "traces",
                                      "determinism_replays")},
    }
    for k in ("schedules", "fault_points"):
        if R.c[k]:
            cov[k] = int(R.c[k])
    ev = {
        "property_id": pid,
        "tier": tier,
        "seed": seed,
        "level": mod.LEVEL,
        "coverage": cov,
        "assumptions": list(getattr(mod, "ASSUMPTIONS", [])),
        "wall_s": round(wall, 2),
        "violations": int(nviol),
    }
    d = os.environ.get("VMC_EVIDENCE_DIR") or os.path.join(HERE, "evidence")
    os.makedirs(d, exist_ok=True)
    tmp = os.path.join(d, pid + ".json.tmp")
    with open(tmp, "w") as f:
        json.dump(ev, f, indent=1)
    os.replace(tmp, os.path.join(d, pid + ".json"))
    return ev


def do_check(pid, tier, seed, workers):
    t0 = time.time()
    mod = load(pid)
    assert_repo()
    if hasattr(mod, "seams"):
        mod.seams()  # raises HarnessError when a patched attribute is missing
    units = [jsonable(u) for u in mod.units(tier)]
    n = len(units)
    if n == 0:
        raise HarnessError("no units")
    nb = n if n <= 4000 else workers * 64      # one task per unit (dynamic load balancing); coarser batches only for very many units
    rot = seed % n
    order = list(range(rot, n)) + list(range(0, rot))
    batches = [[] for _ in range(nb)]
    for pos, idx in enumerate(order):
        batches[pos % nb].append((idx, units[idx]))
    os.environ["VMC_SCRATCH_PARENT"] = scratch.root()
    ctx = multiprocessing.get_context("fork")
    R = Rec()
    results = [None] * nb
    deadline = float(os.environ.get("VMC_DEADLINE", "21600"))
    if workers == 1:
        for k, b in enumerate(batches):
            results[k] = _work((pid, tier, b))
    else:
        with ctx.Pool(min(workers, nb), maxtasksperchild=None) as pool:
            ars = [pool.apply_async(_work, ((pid, tier, b),)) for b in batches]
            for k, ar in enumerate(ars):
                left = max(1.0, deadline - (time.time() - t0))
                try:
                    results[k] = ar.get(timeout=left)
                except multiprocessing.TimeoutError:
                    pool.terminate()
                    raise HarnessError(f"deadline of {deadline}s exceeded")
    for kind, val in results:
        if kind == "harness":
            raise HarnessError(val)
    for kind, val in results:
        R.merge(val)
    if seed:
        R.samples = R.samples[seed % max(1, len(R.samples)):] + R.samples[:seed % max(1, len(R.samples))]
    # vacuity guard: classes the check says must be populated
    for cname in getattr(mod, "EXPECT_CLASSES", {}).get(tier, getattr(mod, "EXPECT_CLASSES", {}).get("*", [])):
        if R.classes[cname] == 0 and not R.mismatches and not any(c.startswith("internal interface changed") for c in R.caps):
            raise HarnessError(f"vacuous: class {cname!r} has no member in tier {tier}")
    nviol, known_seen, nsig = triage(pid, R)
    wall = time.time() - t0
    ev = write_evidence(pid, mod, tier, seed, R, wall, nviol, known_seen, n, workers)
    c = ev["coverage"]
    print(f"{pid} tier={tier} seed={seed} units={n} evaluations={c['evaluations']} nontrivial={c['distinct_nontrivial']} "
          f"states={c['states']} transitions={c['transitions']} traces={c['traces_validated_against_impl']} "
          f"outcomes={c['distinct_outcomes']} violations={nviol} known={sum(known_seen.values())} wall={wall:.1f}s"
          + (f" CAPS={R.caps}" if R.caps else ""))
    return 1 if nviol else 0


def do_replay(path, tier):
    with open(path) as f:
        body = json.load(f)
    pid = body["property"]
    mod = load(pid)
    assert_repo()
    if hasattr(mod, "seams"):
        mod.seams()
    unit, inner = body["case"]["unit"], body["case"].get("inner")
    obs = []
    for _ in range(2):
        U = run_unit(mod, unit, 0, tier, only=inner)
        obs.append(U)
    a = [(m["clause"], m["detail"]) for m in obs[0].mismatches]
    b = [(m["clause"], m["detail"]) for m in obs[1].mismatches]
    if a != b:
        print("HARNESS-ERROR replay is not deterministic:", a, b)
        return 2
    nviol, known_seen, _ = triage(pid, obs[0])
    for m in obs[0].mismatches[:5]:
        print(f"   replayed clause={m['clause']} detail={m['detail'][:500]}")
    if not obs[0].mismatches:
        print(f"replay of {path}: no mismatch on this tree")
    return 1 if nviol else 0


def do_selftest():
    assert_repo()
    import subprocess
    bad = 0
    for pid in ALL_IDS:
        p = os.path.join(HERE, "vmc", "checks", pid.lower() + ".py")
        if not os.path.exists(p):
            continue
        try:
            mod = load(pid)
            if hasattr(mod, "seams"):
                mod.seams()
            assert mod.ID == pid and mod.LEVEL
        except Exception as e:
            print("SELFTEST-FAIL", pid, type(e).__name__, e)
            bad += 1
    tests = os.path.join(HERE, "tests")
    if os.path.isdir(tests) and any(f.startswith("test_") for f in os.listdir(tests)):
        r = subprocess.run([sys.executable, "-m", "pytest", "-q", "-x", "-p", "no:cacheprovider", tests], cwd=HERE)
        bad += r.returncode != 0
    print("selftest", "FAILED" if bad else "ok")
    return 1 if bad else 0


def main(argv=None):
    ap = argparse.ArgumentParser()
    ap.add_argument("pid", nargs="?")
    ap.add_argument("--tier", default=os.environ.get("VERIF_TIER") or "quick", choices=["quick", "thorough"])
    ap.add_argument("--replay")
    ap.add_argument("--selftest", action="store_true")
    ap.add_argument("--workers", type=int, default=int(os.environ.get("VMC_WORKERS", "0")) or min(16, os.cpu_count() or 1))
    a = ap.parse_args(argv)
    try:
        seed = int(os.environ.get("VERIF_SEED", "0") or 0)
    except ValueError:
        seed = 0
    try:
        if a.selftest:
            return do_selftest()
        if a.replay:
            return do_replay(a.replay, a.tier)
        if not a.pid:
            ap.error("property id required")
        return do_check(a.pid.upper(), a.tier, abs(seed), a.workers)
    except HarnessError as e:
        print("HARNESS-ERROR", e)
        return 2


if __name__ == "__main__":
    sys.exit(main())
