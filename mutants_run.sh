#!/bin/bash
# usage: mutants_run.sh <ID> <file-relative-to-src/cooler> <sed-expression> [tier]
# Applies one sed edit to a scratch copy of /repo/src (never to /repo), runs the check against it, removes the copy.
set -u
id="$1"; file="$2"; expr="$3"; tier="${4:-quick}"
d=$(mktemp -d /dev/shm/mut-XXXXXX)
cp -r /repo/src "$d/src"
find "$d/src" -name __pycache__ -prune -exec rm -rf {} +
before=$(md5sum "$d/src/cooler/$file" | cut -d' ' -f1)
sed -i -E "$expr" "$d/src/cooler/$file"
after=$(md5sum "$d/src/cooler/$file" | cut -d' ' -f1)
if [ "$before" = "$after" ]; then echo "MUTANT-NOOP: sed changed nothing"; rm -rf "$d"; exit 3; fi
diff <(cat /repo/src/cooler/$file) "$d/src/cooler/$file" | head -8
VMC_EVIDENCE_DIR="$d/ev" VMC_REPLAY_DIR="$d/rp" VMC_REPO_SRC="$d/src" /verif/check "$id" --tier "$tier" 2>&1 | grep -E "VIOLATION|KNOWN|HARNESS|clause=|tier=" | head -12
rc=${PIPESTATUS[0]}
rm -rf "$d"
exit $rc
