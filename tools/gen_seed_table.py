#!/usr/bin/env python3
"""Rewrites the table of seeded changes in DESIGN.md (between the SEEDTABLE markers) from /verif/seeded/*/meta.json."""
import glob, json, os, re
HERE = os.path.dirname(os.path.dirname(os.path.abspath(__file__)))
rows = []
for d in sorted(glob.glob(os.path.join(HERE, "seeded", "*"))):
    m = json.load(open(os.path.join(d, "meta.json")))
    note = m.get("note", "")
    first = "missed" if re.search(r"MISSED|would have been", note) else "caught"
    rows.append((os.path.basename(d), m["summary"].replace("|", "/").replace("\n", " "), first, " ".join(m["caught_by"]), note.replace("|", "/")))
out = ["| seed | change (one sentence) | first pass | caught by (now) | what was strengthened / where it is caught |", "|---|---|---|---|---|"]
for r in rows:
    out.append(f"| {r[0]} | {r[1][:230]} | {r[2]} | {r[3]} | {r[4][:360]} |")
n, miss = len(rows), sum(1 for r in rows if r[2] == "missed")
p = os.path.join(HERE, "DESIGN.md")
s = open(p).read()
a, b = s.index("<!-- SEEDTABLE-BEGIN -->"), s.index("<!-- SEEDTABLE-END -->")
s = s[:a] + "<!-- SEEDTABLE-BEGIN -->\n" + f"*{n} seeded changes kept; {miss} missed on the first pass; all {n} caught now.*\n\n" + "\n".join(out) + "\n" + s[b:]
open(p, "w").write(s)
print(n, miss)
