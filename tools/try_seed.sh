#!/bin/bash
# usage: tools/try_seed.sh <seed_dir (patch.diff, demo.py, meta.json)> [--tests] <check ids...>
# Verifies a seeded change in a scratch copy of /repo (never touches /repo): patch applies, demo fails with / passes without,
# optionally the repository suite passes with it, then runs the named checks (quick tier) against the patched sources.
set -u
seed="$1"; shift
runtests=0; if [ "${1:-}" = "--tests" ]; then runtests=1; shift; fi
d=$(mktemp -d /dev/shm/seed-XXXXXX)
rsync -a --exclude .git --exclude htmlcov --exclude __pycache__ /repo/ "$d/repo/"
cd "$d/repo"
echo "== demo on clean sources"; PYTHONPATH="$d/repo/src" timeout 300 /venv/bin/python -W ignore "$seed/demo.py" > "$d/demo_clean.out" 2>&1; echo "exit=$?"
if ! patch -p1 --quiet < "$seed/patch.diff"; then echo "PATCH-DOES-NOT-APPLY"; rm -rf "$d"; exit 3; fi
echo "== demo on patched sources"; PYTHONPATH="$d/repo/src" timeout 300 /venv/bin/python -W ignore "$seed/demo.py" > "$d/demo_patched.out" 2>&1; echo "exit=$?"; tail -3 "$d/demo_patched.out" | cut -c1-300
if [ $runtests = 1 ]; then
  echo "== repository suite on patched sources"
  mkdir -p "$d/tmp"; TMPDIR="$d/tmp" PYTHONPATH="$d/repo/src" /venv/bin/python -m pytest -q -p no:cacheprovider --no-cov --timeout=900 --deselect "tests/test_create.py::test_roundtrip" > "$d/tests.out" 2>&1; echo "pytest exit=$?"; tail -2 "$d/tests.out"
fi
for id in "$@"; do
  echo "== check $id (quick) on patched sources"
  VMC_EVIDENCE_DIR="$d/ev" VMC_REPLAY_DIR="$d/rp" VMC_REPO_SRC="$d/repo/src" /verif/check "$id" --tier quick 2>&1 | grep -E "^VIOLATION|clause=|HARNESS|tier=" | head -7 | cut -c1-330
done
rm -rf "$d"
