#!/bin/bash
# runs every registered check (quick by default) on /repo and reports exit codes; evidence is rewritten in place
tier="${1:-quick}"; shift || true
ids="${@:-C01 C02 C03 C04 C05 C06 C07 C08 C09 C10 C11 C12 C13 C14 C15 C16 C17 C18 C19 C20}"
cd /verif
for id in $ids; do
  s=$(date +%s)
  ./check $id --tier $tier > /dev/shm/runall_$id.log 2>&1; rc=$?
  e=$(( $(date +%s) - s ))
  echo "$id rc=$rc ${e}s $(grep -c '^VIOLATION' /dev/shm/runall_$id.log) violations, $(grep -c '^KNOWN-FINDING' /dev/shm/runall_$id.log) known | $(tail -1 /dev/shm/runall_$id.log | cut -c1-160)"
done
