"""Line/branch coverage of /repo/src/cooler under one check's quick units (development aid, not a check).

usage: PYTHONPATH=/repo/src:/verif /venv/bin/python tools/cov_units.py <ID> <seconds> <outdir> [shard nshards]
Runs the units of the quick tier in-process (one unit per leg first, then round-robin) until the time
budget is used, under coverage.py with branch measurement; writes <outdir>/<ID>.cov.  Subprocess pools that
a check starts itself are not measured. Combine with tools/cov_report.sh."""
import os
import sys
import time

import coverage

cid, budget, outdir = sys.argv[1], float(sys.argv[2]), sys.argv[3]
shard, nshards = (int(sys.argv[4]), int(sys.argv[5])) if len(sys.argv) > 5 else (0, 1)
os.makedirs(outdir, exist_ok=True)
cov = coverage.Coverage(data_file=os.path.join(outdir, f"{cid}.{shard}.cov"), source=["/repo/src/cooler"], branch=True)
cov.start()
from vmc import run as vrun  # noqa: E402

mod = vrun.load(cid.lower()) if hasattr(vrun, "load") else None
units = [vrun.jsonable(u) for u in mod.units("quick")]
# order: first unit of every distinct leg / key-shape first, then the rest with a stride
seen, first, rest = set(), [], []
for i, u in enumerate(units):
    k = (u.get("leg"), u.get("kind"), u.get("init"), u.get("via"), u.get("tab"), u.get("dim"), u.get("mode")) if isinstance(u, dict) else None
    (rest if k in seen else first).append((i, u))
    seen.add(k)
t0 = time.time()
n = 0
stride = max(1, len(rest) // 40)
todo = (first + rest[::stride] + rest)[shard::nshards]
for i, u in todo:
    if time.time() - t0 > budget:
        break
    try:
        vrun.run_unit(mod, u, i, "quick")
    except BaseException as e:  # noqa
        print("unit failed", u, repr(e)[:200])
    n += 1
cov.stop()
cov.save()
print(cid, "units run", n, "of", len(units), "in", int(time.time() - t0), "s")
