#!/usr/bin/env python3
"""Regenerates MANIFEST.json from the check modules that exist (run with /venv/bin/python from /verif)."""
import importlib, json, os, sys
HERE = os.path.dirname(os.path.dirname(os.path.abspath(__file__)))
sys.path.insert(0, HERE)
sys.path.insert(0, "/repo/src")
props = [json.loads(l) for l in open(os.path.join(HERE, "properties.jsonl"))]
NA = {}   # property id -> reason, for properties deliberately not claimed
na_file = os.path.join(HERE, "tools", "not_applicable.json")
if os.path.exists(na_file):
    NA = json.load(open(na_file))
checks, na = [], []
for p in props:
    pid = p["id"]
    path = os.path.join(HERE, "vmc", "checks", pid.lower() + ".py")
    if pid in NA:
        na.append({"property_id": pid, "reason": NA[pid]})
        continue
    if not os.path.exists(path):
        na.append({"property_id": pid, "reason": "check not built yet (work in progress; see DESIGN.md section 5 for the plan)"})
        continue
    m = importlib.import_module("vmc.checks." + pid.lower())
    checks.append({
        "property_id": pid,
        "quick_cmd": f"./check {pid} --tier quick",
        "thorough_cmd": f"./check {pid} --tier thorough",
        "evidence_file": f"/verif/evidence/{pid}.json",
        "replay_cmd_template": f"./check {pid} --replay {{path}}",
        "engine": getattr(m, "ENGINE", "vmc"),
        "level_claimed": {"category": m.LEVEL, "text": (getattr(m, "LEVEL_TEXT", m.RULE)[:1100] + ((" || legs added later: " + m.EXTRA_LEGS) if getattr(m, "EXTRA_LEGS", "") else ""))[:2200], "design_ref": f"DESIGN.md section 5, {pid}"},
        "level_note": "; ".join(getattr(m, "ASSUMPTIONS", [])) or "reference model and harness are trusted",
        "technique": getattr(m, "TECHNIQUE", "bounded exhaustive enumeration of inputs/operation sequences on the real implementation against an executable reference model (explicit-state model checking of the implementation)"),
    })
man = {
    "version": 1,
    "setup_cmd": "./check --selftest",
    "hooks": {"guard": "COOLER_VERIF", "enable": "none needed: all seams are taken from outside (public parameters, module attributes patched by the harness at start-up); the guard name is reserved", 
              "baseline_off_cmd": "cd /repo && /venv/bin/python -m pytest -ra -q -p no:cacheprovider --timeout=900 --continue-on-collection-errors",
              "source_commits": [], "add_only": True},
    "engines": [
        {"name": "vmc", "path": "/verif/vmc", "serves_properties": [c["property_id"] for c in checks],
         "kind_free_text": "hand-written explicit-state / bounded-exhaustive explorer for Python: E1 input-space products, E2 BFS over histories of real HDF5 files, E3 schedule exploration through the map/Pool seam, E4 single-fault injection at every h5py call; reference models in vmc/models.py"}],
    "checks": checks,
    "not_applicable": na,
    "notes": "Every check enumerates a finite, stated space completely on the real implementation imported from /repo/src (working tree). VERIF_SEED only rotates work distribution and printed samples. Known findings: /verif/known_findings.json.",
}
json.dump(man, open(os.path.join(HERE, "MANIFEST.json"), "w"), indent=1)
print("checks:", [c["property_id"] for c in checks], "na:", [x["property_id"] for x in na])
