#!/bin/bash
# usage: tools/try_refactor.sh <dir with patch.diff> [check ids...]   (default: all 20)
# A behaviour-preserving refactoring must leave EVERY check silent: patches a scratch copy of /repo (never /repo itself), runs the
# pinned suite on it, then the quick tier of the named checks against the patched sources; prints one line per check.
set -u
seed="$1"; shift
ids="${@:-C01 C02 C03 C04 C05 C06 C07 C08 C09 C10 C11 C12 C13 C14 C15 C16 C17 C18 C19 C20}"
d=$(mktemp -d /dev/shm/refac-XXXXXX)
rsync -a --exclude .git --exclude htmlcov --exclude __pycache__ /repo/ "$d/repo/"
cd "$d/repo"
if ! patch -p1 --quiet < "$seed/patch.diff"; then echo "PATCH-DOES-NOT-APPLY"; rm -rf "$d"; exit 3; fi
mkdir -p "$d/tmp"; TMPDIR="$d/tmp" PYTHONPATH="$d/repo/src" /venv/bin/python -m pytest -q -p no:cacheprovider --no-cov --timeout=900 --deselect "tests/test_create.py::test_roundtrip" > "$d/tests.out" 2>&1; echo "pytest exit=$? $(grep -E 'passed|failed' $d/tests.out | tail -1)"
for id in $ids; do
  VMC_EVIDENCE_DIR="$d/ev" VMC_REPLAY_DIR="$d/rp" VMC_REPO_SRC="$d/repo/src" /verif/check "$id" --tier quick > "$d/$id.out" 2>&1; rc=$?
  echo "$id rc=$rc $(grep -c '^VIOLATION' $d/$id.out) violations | $(grep -E 'clause=|HARNESS' $d/$id.out | head -3 | cut -c1-260 | tr '\n' ' ') $(grep -o 'CAPS=.*' $d/$id.out | cut -c1-200)"
  if [ $rc -ne 0 ]; then mkdir -p /dev/shm/refac-fail; cp "$d/$id.out" /dev/shm/refac-fail/$(basename $seed)-$(basename $(dirname $seed))-$id.out; cp -r "$d/rp" /dev/shm/refac-fail/rp-$(basename $(dirname $seed))-$id 2>/dev/null; fi
done
rm -rf "$d"
