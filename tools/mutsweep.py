#!/usr/bin/env python3
"""Own mutation sweep (development aid, not a check): for one property, apply small textual mutation operators, one at a time, to the
source lines the property is anchored in (properties.jsonl: anchors.mechanism[].where), run the property's quick check against a
scratch copy of /repo/src carrying the mutant (VMC_REPO_SRC; /repo itself is never touched) and record whether the check reports it.

usage: tools/mutsweep.py <ID> [--workers N] [--max M] [--out FILE] [--extra 'file:lo-hi' ...]
Survivors are either equivalent mutants or holes in the check; they are listed at the end for reading."""
import argparse
import json
import os
import py_compile
import re
import shutil
import subprocess
import sys
import tempfile

HERE = os.path.dirname(os.path.dirname(os.path.abspath(__file__)))
OPS = [
    (r"<=", "<"), (r"(?<![<>=!])<(?![=<])", "<="), (r">=", ">"), (r"(?<![<>=!-])>(?![=>])", ">="), (r"==", "!="), (r"!=", "=="),
    (r"\+ 1\b", "+ 0"), (r"\+ 1\b", "- 1"), (r"- 1\b", "+ 0"), (r"- 1\b", "+ 1"),
    (r'"left"', '"right"'), (r'"right"', '"left"'), (r"\band\b", "or"), (r"\bor\b", "and"), (r"\bTrue\b", "False"), (r"\bFalse\b", "True"),
    (r"np\.floor", "np.ceil"), (r"np\.ceil", "np.floor"), (r"\bmin\(", "max("), (r"\bmax\(", "min("), (r"\.min\(\)", ".max()"), (r"\.max\(\)", ".min()"),
    (r"\[:-1\]", "[1:]"), (r"\[1:\]", "[:-1]"), (r"\bnot ", ""), (r"\bi0\b", "i1"), (r"\bj0\b", "j1"), (r"\blo\b", "hi"), (r"\bhi\b", "lo"),
    (r"\bbin1_id\b", "bin2_id"), (r"\bbin2_id\b", "bin1_id"), (r"\bstart\b", "end"), (r"// ", "/ "), (r"\* ", "+ "),
    (r"\bis None\b", "is not None"), (r"\bis not None\b", "is None"), (r"\[0\]", "[-1]"), (r"\[-1\]", "[0]"), (r"\b0\b", "1"), (r"\b1\b", "2"),
]
SKIP = re.compile(r'^\s*(#|"""|\'\'\'|logger\.|warnings\.|raise |import |from |def |class |@|"|\')')


def ranges_for(pid, extra):
    out = []
    for line in open(os.path.join(HERE, "properties.jsonl")):
        p = json.loads(line)
        if p["id"] != pid:
            continue
        for m in p["anchors"]["mechanism"]:
            for part in m["where"].split(";"):
                part = part.strip()
                f, _, rg = part.partition(":")
                if not f.endswith(".py"):
                    continue
                for r in rg.split(","):
                    a, _, b = r.partition("-")
                    out.append((f, int(a), int(b or a)))
    for e in extra:
        f, _, rg = e.partition(":")
        a, _, b = rg.partition("-")
        out.append((f, int(a), int(b or a)))
    return out


def mutants(pid, extra):
    seen = set()
    for f, a, b in ranges_for(pid, extra):
        path = os.path.join("/repo", f)
        lines = open(path).read().split("\n")
        indoc = False
        for ln in range(1, len(lines) + 1):
            text = lines[ln - 1]
            if text.count('"""') % 2 == 1:
                indoc = not indoc
                continue
            if indoc or not (a <= ln <= b) or SKIP.match(text) or not text.strip():
                continue
            code = text.split("  # ")[0]
            for oi, (pat, rep) in enumerate(OPS):
                for k, m in enumerate(re.finditer(pat, code)):
                    new = code[:m.start()] + rep + code[m.end():]
                    key = (f, ln, new)
                    if new == code or key in seen:
                        continue
                    seen.add(key)
                    yield {"file": f, "line": ln, "old": code.strip(), "new": new.strip(), "_newline": new}


def run_one(pid, mu, workers):
    d = tempfile.mkdtemp(prefix="msw-", dir="/dev/shm")
    try:
        shutil.copytree("/repo/src", d + "/src", ignore=shutil.ignore_patterns("__pycache__"))
        rel = mu["file"][len("src/"):]
        p = os.path.join(d, "src", rel)
        lines = open(p).read().split("\n")
        lines[mu["line"] - 1] = mu["_newline"]
        open(p, "w").write("\n".join(lines))
        try:
            py_compile.compile(p, doraise=True, cfile=d + "/x.pyc")
        except py_compile.PyCompileError:
            return "does-not-compile", ""
        env = dict(os.environ, VMC_REPO_SRC=d + "/src", VMC_EVIDENCE_DIR=d + "/ev", VMC_REPLAY_DIR=d + "/rp", VMC_WORKERS=str(workers))
        try:
            r = subprocess.run([os.path.join(HERE, "check"), pid, "--tier", "quick"], env=env, capture_output=True, text=True, timeout=1500)
        except subprocess.TimeoutExpired:
            return "timeout", ""
        clause = ""
        for ln in r.stdout.splitlines():
            if "clause=" in ln:
                clause = ln.strip()[:160]
                break
        if r.returncode == 1 and "VIOLATION" in r.stdout:
            return "caught", clause
        if r.returncode == 0:
            return "SURVIVED", ""
        return f"harness(rc={r.returncode})", (r.stdout + r.stderr)[-300:].replace("\n", " ")
    finally:
        shutil.rmtree(d, ignore_errors=True)


def main():
    ap = argparse.ArgumentParser()
    ap.add_argument("pid")
    ap.add_argument("--workers", type=int, default=8)
    ap.add_argument("--max", type=int, default=10 ** 6)
    ap.add_argument("--stride", type=int, default=1)
    ap.add_argument("--out")
    ap.add_argument("--extra", nargs="*", default=[])
    a = ap.parse_args()
    ms = list(mutants(a.pid, a.extra))[::a.stride][:a.max]
    print(f"{a.pid}: {len(ms)} mutants", flush=True)
    res = []
    for k, mu in enumerate(ms):
        verdict, info = run_one(a.pid, mu, a.workers)
        res.append({**{x: y for x, y in mu.items() if not x.startswith("_")}, "verdict": verdict, "info": info})
        print(f"[{k + 1}/{len(ms)}] {verdict:10s} {mu['file']}:{mu['line']}  {mu['old'][:90]}  ->  {mu['new'][:90]}   {info[:120]}", flush=True)
        if a.out:
            json.dump(res, open(a.out, "w"), indent=1)
    n = len(res)
    print(f"SUMMARY {a.pid}: {n} mutants, caught {sum(r['verdict'] == 'caught' for r in res)}, survived {sum(r['verdict'] == 'SURVIVED' for r in res)}, "
          f"other {sum(r['verdict'] not in ('caught', 'SURVIVED') for r in res)}")
    for r in res:
        if r["verdict"] == "SURVIVED":
            print("SURVIVOR", r["file"], r["line"], "|", r["old"], "->", r["new"])


if __name__ == "__main__":
    sys.exit(main())
