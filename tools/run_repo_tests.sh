#!/bin/bash
# Runs the repository's pinned suite (guard off) and compares with /root/.vp/BASELINE.json stable_pass.
out=${1:-/dev/shm/repo_tests}
mkdir -p "$out"
mkdir -p "$out/tmp"; cd /repo && TMPDIR="$out/tmp" /venv/bin/python -m pytest -ra -q -p no:cacheprovider --timeout=900 --continue-on-collection-errors --junitxml="$out/junit.xml" > "$out/log.txt" 2>&1
/venv/bin/python - "$out/junit.xml" <<'PY'
import json, sys, xml.etree.ElementTree as ET
base = set(json.load(open("/root/.vp/BASELINE.json"))["stable_pass"])
passed = set()
for tc in ET.parse(sys.argv[1]).getroot().iter("testcase"):
    if not any(ch.tag in ("failure", "error", "skipped") for ch in tc):
        passed.add(tc.get("classname") + "::" + tc.get("name"))
missing = sorted(base - passed)
print(f"REPO-TESTS passed={len(passed)} baseline={len(base)} missing={len(missing)}")
for m in missing: print("  MISSING", m)
sys.exit(1 if missing else 0)
PY
