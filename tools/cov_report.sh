#!/bin/bash
# usage: tools/cov_report.sh <outdir> — combine the per-check data files written by cov_units.py and list what no check reaches
cd "$1" && /venv/bin/python -m coverage combine --keep --data-file="$1/all.cov" "$1"/C*.cov >/dev/null 2>&1
/venv/bin/python -m coverage report --data-file="$1/all.cov" -m --skip-empty 2>&1
