#!/bin/bash
# usage: tools/keep_seed.sh <seed_dir> <name e.g. C15-1> "<checks that caught it>" "<note>"
src="$1"; name="$2"; caught="$3"; note="${4:-}"
dst=/verif/seeded/$name; mkdir -p "$dst"
cp "$src/patch.diff" "$src/demo.py" "$dst/"
/venv/bin/python - "$src/meta.json" "$dst/meta.json" "$caught" "$note" <<'PY'
import json,sys
m=json.load(open(sys.argv[1]))
m["caught_by"]=[c for c in sys.argv[3].split() if c]
m["what_i_ran"]="tools/try_seed.sh <seed> --tests <checks>: scratch copy of /repo patched with patch.diff; demo.py exits 0 on clean and 1 on patched sources; pinned suite passes on the patched copy; the named checks' quick tier run against the patched copy via VMC_REPO_SRC"
m["note"]=sys.argv[4]
json.dump(m,open(sys.argv[2],"w"),indent=1)
PY
echo kept $name
