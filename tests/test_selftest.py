"""Self-tests of the machinery (run by `./check --selftest`, i.e. MANIFEST.setup_cmd): the reference models, the alphabets, the
explorers and the validator must be right before anything they report about cooler is believed."""
import itertools
import os
import shutil
import tempfile

import h5py
import numpy as np
import pytest

from vmc import alpha, build, h5ref, models, refbalance
from vmc.fsmodel import FS, Unspecified
from vmc.seams import sched


# ---- alphabets ---------------------------------------------------------------------------------
def test_bin_table_counts():
    assert len(alpha.bin_tables(3, 3)) == 129
    assert len(alpha.bin_tables(3, 4)) == 696
    assert len(alpha.bin_tables(3, 5)) == 3369
    assert len(set(alpha.bin_tables(3, 4))) == 696


def test_windows_and_classes():
    assert [len(alpha.intervals(n)) ** 2 for n in (1, 2, 3, 4)] == [9, 36, 100, 225]
    classes = {alpha.window_class(a, b, c, d) for (a, b) in alpha.intervals(4) for (c, d) in alpha.intervals(4)}
    assert classes == {"empty", "diag-square", "above", "below", "anchored", "end-anchored", "i-in-j", "j-in-i", "overlap-upper", "overlap-lower"}


def test_chunkings():
    assert [len(alpha.ordered_set_partitions(m)) for m in range(1, 5)] == [1, 3, 13, 75]
    assert [len(alpha.compositions(m)) for m in range(1, 5)] == [1, 2, 4, 8]
    for p in alpha.ordered_set_partitions(4):
        assert sorted(x for b in p for x in b) == [0, 1, 2, 3]


# ---- reference models -----------------------------------------------------------------------------
def test_ref_bins():
    bins = [("a", 0, 2), ("a", 2, 5), ("b", 0, 1)]
    assert models.ref_bin_of(bins, "a", 2) == 1 and models.ref_bin_of(bins, "a", 5) is None and models.ref_bin_of(bins, "b", 0) == 2
    assert models.ref_cover(bins, "a", 1, 3) == [0, 1] and models.ref_cover(bins, "a", 2, 3) == [1]
    assert models.ref_chromsizes(bins) == {"a": 5, "b": 1}
    assert models.ref_binsize_ok([("a", 0, 2), ("a", 2, 4), ("a", 4, 5)], 2)
    assert not models.ref_binsize_ok([("a", 0, 2), ("a", 2, 5)], 2)             # longer last bin
    assert not models.ref_binsize_ok([("a", 0, 2), ("a", 2, 4), ("b", 0, 3)], 2)  # one-bin chromosome longer than the size
    assert models.ref_binnify([("a", 5), ("b", 2)], 2) == [("a", 0, 2), ("a", 2, 4), ("a", 4, 5), ("b", 0, 2)]


def test_ref_indptr_rle():
    assert models.ref_indptr([0, 0, 2, 3, 3], 5) == [0, 2, 2, 3, 5, 5]
    assert models.ref_indptr([], 2) == [0, 0, 0]
    assert models.ref_rle([1, 1, 2, 1]) == ([0, 2, 3], [2, 1, 1], [1, 2, 1])


def test_ref_coarsen_composes_and_commutes_with_merge():
    bins = models.ref_binnify([("a", 12), ("b", 7)], 1)
    n = len(bins)
    pa = {(i, j): 1 + i * n + j for i in range(n) for j in range(i, n) if (i + j) % 3}
    pb = {(i, j): 5 + i for i in range(n) for j in range(i, n) if (i * j) % 2 == 0}
    b2, p2 = models.ref_coarsen(bins, pa, 2)
    b6a, p6a = models.ref_coarsen(b2, p2, 3)
    b6, p6 = models.ref_coarsen(bins, pa, 6)
    assert b6a == b6 and p6a == p6
    assert sum(p6.values()) == sum(pa.values())
    m = models.ref_merge([pa, pb])
    assert models.ref_coarsen(bins, m, 2)[1] == models.ref_merge([models.ref_coarsen(bins, pa, 2)[1], models.ref_coarsen(bins, pb, 2)[1]])
    # a new bin never spans two chromosomes
    assert all(len({c for (c, s, e) in bins if nb[0] == c and nb[1] <= s and e <= nb[2]}) == 1 for nb in b6)


def test_ref_aggregate_kinds():
    recs = [((0, 0), 2), ((0, 0), 2), ((0, 1), 5)]
    assert models.ref_aggregate(recs) == {(0, 0): 4, (0, 1): 5}
    assert models.ref_aggregate(recs, "count") == {(0, 0): 2, (0, 1): 1}
    assert models.ref_aggregate(recs, "nunique") == {(0, 0): 1, (0, 1): 1}
    assert models.ref_aggregate(recs, "max") == {(0, 0): 2, (0, 1): 5}


def test_ref_region_strings():
    assert models.ref_region_string("chr1:1.001k-2M") == ("chr1", 1001, 2000000)
    assert models.ref_region_string("2-micron:1,000-") == ("2-micron", 1000, None)
    assert models.ref_region_string("X") == ("X", None, None)
    assert models.ref_number("0.000000015g") == 15
    for bad in (":1-2", "c:5", "c:-5-10", "c:a-b", "c:10-5", "c:1x-2", "c:1.0005k-2", "c:1-1_000"):
        with pytest.raises(models.Refuse):
            models.ref_region_string(bad)


def test_ref_balance_flattens():
    rng = np.random.default_rng(0)
    A = rng.integers(1, 9, size=(6, 6)).astype(float)
    A = np.triu(A) + np.triu(A, 1).T
    w, scale, var, info = refbalance.ref_balance(A, [0] * 6, mode="gw", ignore_diags=1, min_nnz=0, mad_max=0, tol=1e-12, max_iters=500)
    r, _ = refbalance.row_sums(A, [0] * 6, "gw", 1, w)
    assert var < 1e-12 and np.allclose(r, 1.0, atol=1e-5)
    # cis mode works per chromosome block
    w2, s2, v2, _ = refbalance.ref_balance(A, [0, 0, 0, 1, 1, 1], mode="cis", ignore_diags=1, min_nnz=0, mad_max=0, tol=1e-12, max_iters=500)
    r2, _ = refbalance.row_sums(A, [0, 0, 0, 1, 1, 1], "cis", 1, w2)
    assert len(s2) == 2 and np.allclose(r2, 1.0, atol=1e-5)


# ---- explorers ----------------------------------------------------------------------------------------
def test_explore_counts_executions():
    def system(ch):
        return [ch.choose(3, "a"), ch.choose(2, "b"), ch.choose(3, "c")]
    runs0 = [r for _, r in sched.explore(system, 0)]
    runs1 = [r for _, r in sched.explore(system, 1)]
    runs2 = [r for _, r in sched.explore(system, 2)]
    runs3 = [r for _, r in sched.explore(system, 3)]
    assert runs0 == [[0, 0, 0]]
    assert len(runs1) == 1 + 2 + 1 + 2 and len(set(map(tuple, runs1))) == len(runs1)
    assert len(runs2) == len(runs1) + (2 * 1 + 2 * 2 + 1 * 2)
    assert sorted(map(tuple, runs3)) == sorted(itertools.product(range(3), range(2), range(3)))


def test_virtual_pool_orders_and_copies():
    ch = sched.Choices([5])          # the 6th (last) permutation of 3 tasks
    sched.VirtualPool.choices = ch
    sched.VirtualPool.mon = None
    seen = []
    pool = sched.VirtualPool(3)
    box = [0]

    def f(x):
        seen.append(x)
        box[0] += 1                  # tasks run on copies of their closure (as in a real pool): the caller's box stays 0
        return x * 10
    assert pool.map(f, [1, 2, 3]) == [10, 20, 30]
    assert box[0] == 0
    assert ch.trace[0][0] == 6
    out = list(sched.VirtualPool(2).imap_unordered(lambda x: x, [1, 2]))
    assert sorted(out) == [1, 2]
    sched.VirtualPool.choices = None


def test_virtual_lock_reports_deadlock():
    mon = sched.Monitor()
    lk = sched.VirtualLock(mon)
    lk.acquire()
    with pytest.raises(sched.Deadlock):
        lk.acquire()
    assert any("deadlock" in f for f in mon.flags)
    lk.release()
    assert not lk.held


# ---- file-system model ----------------------------------------------------------------------------------
def test_fsmodel_links_and_copies():
    m = FS()
    m.op_create("X", "/a", "D1", "w")
    m.op_ln("X", "/a", "X", "/c", soft=True)
    m.op_ln("X", "/a", "X", "/h", soft=False)
    assert m.listing("X") == {"/a": "D1", "/c": "D1", "/h": "D1"}
    m.op_mv("X", "/a", "/d")
    lst = m.listing("X")
    assert lst.pop("__dangling__") == ["/c"] and lst == {"/d": "D1", "/h": "D1"}
    m.op_create("X", "/h", "D2", "a")                     # re-creating at a hard link replaces the link only
    assert m.listing("X")["/d"] == "D1" and m.listing("X")["/h"] == "D2"
    m.op_cp("X", "/d", "Y", "/")
    assert m.listing("Y") == {"/": "D1"}
    with pytest.raises(Unspecified):
        m.op_mv("X", "/d", "/d/inside")
    c1 = m.canon()
    assert m.clone().canon() == c1


# ---- validator V -----------------------------------------------------------------------------------------
@pytest.fixture(scope="module")
def valid_cooler():
    d = tempfile.mkdtemp(prefix="vmcself", dir="/dev/shm" if os.path.isdir("/dev/shm") else None)
    p = os.path.join(d, "v.cool")
    bins = alpha.table_bins(((2, 2), (2, 1)), "chr")
    build.create(p, bins, {(0, 0): 1, (0, 2): 3, (1, 1): 2, (3, 3): 4}, True)
    yield p
    shutil.rmtree(d, ignore_errors=True)


def test_validator_accepts_valid(valid_cooler):
    assert h5ref.validate(valid_cooler) == []


@pytest.mark.parametrize("corrupt,clause", [
    (lambda f: f.attrs.__setitem__("nnz", 5), "V:nnz-attr"),
    (lambda f: f["pixels/bin2_id"].__setitem__(1, 0), "V:not-strictly-sorted"),
    (lambda f: f["pixels/bin1_id"].__setitem__(3, 9), "V:bin-id-range"),
    (lambda f: f["indexes/bin1_offset"].__setitem__(1, 1), "V:bin1_offset"),
    (lambda f: f["indexes/chrom_offset"].__setitem__(1, 1), "V:chrom_offset"),
    (lambda f: f.attrs.__setitem__("sum", 11), "V:sum-attr"),
    (lambda f: f.attrs.__setitem__("bin-size", 3), "V:bin-size-attr-false"),
    (lambda f: f.attrs.__setitem__("nbins", 5), "V:nbins"),
    (lambda f: f["bins/start"].__setitem__(1, 1), "V:bins-not-contiguous-from-0"),
    (lambda f: f["chroms/length"].__setitem__(1, 9), "V:chrom-length!=last-bin-end"),
    (lambda f: f["pixels/count"].resize((3,)), "V:pixel-columns-length"),
    (lambda f: f.attrs.__delitem__("storage-mode"), "V:attr-missing:storage-mode"),
])
def test_validator_rejects_each_corruption(valid_cooler, corrupt, clause):
    p = valid_cooler + ".bad"
    shutil.copy(valid_cooler, p)
    with h5py.File(p, "r+") as f:
        corrupt(f)
    v = h5ref.validate(p)
    os.remove(p)
    assert any(x.startswith(clause) for x in v), v


def test_validator_lower_triangle(valid_cooler):
    p = valid_cooler + ".bad2"
    shutil.copy(valid_cooler, p)
    with h5py.File(p, "r+") as f:
        f["pixels/bin1_id"][1] = 3       # (3, 2) in symmetric-upper storage, also breaks the order
    v = h5ref.validate(p)
    os.remove(p)
    assert "V:lower-triangle-in-symmetric-upper" in v


def test_canon_ignores_volatile_and_sees_changes(valid_cooler):
    a = h5ref.canon_hash(valid_cooler)
    p = valid_cooler + ".c"
    shutil.copy(valid_cooler, p)
    with h5py.File(p, "r+") as f:
        f.attrs["creation-date"] = "another day"
    assert h5ref.canon_hash(p) == a
    with h5py.File(p, "r+") as f:
        f["pixels/count"][0] = 9
    assert h5ref.canon_hash(p) != a
    os.remove(p)


def test_seamprobe_skips_on_interface_change_only():
    from vmc.core import seamprobe
    from vmc.core.rec import Rec
    R = Rec()

    def refactored():
        raise TypeError("f() takes 2 positional arguments but 3 were given")

    def behavioural():
        raise ValueError("wrong answer")      # not an interface change: the leg's own oracle must judge it

    assert seamprobe.internal_ok(R, "selftest:a", refactored) is False
    assert R.caps and R.caps[0].startswith("internal interface changed")
    assert seamprobe.internal_ok(R, "selftest:b", behavioural) is True
    assert seamprobe.internal_ok(R, "selftest:c", lambda: None) is True
    assert len(R.caps) == 1
