import numpy as np, pandas as pd, cooler, h5py, warnings, traceback
from cooler import util
warnings.simplefilter("ignore")
def tryit(name, f):
    try:
        print(name, "->", f())
    except Exception as e:
        print(name, "EXC", type(e).__name__, str(e)[:200])

# 1 get_binsize
b = pd.DataFrame({"chrom":["a","a","a","b","b"],"start":[0,10,20,0,10],"end":[10,20,35,10,20]})
print("binsize longer last:", util.get_binsize(b))
pix = pd.DataFrame({"bin1_id":[0,2,3],"bin2_id":[0,2,4],"count":[1,2,3]})
cooler.create_cooler("/dev/shm/a.cool", b, pix, ordered=True)
c = cooler.Cooler("/dev/shm/a.cool")
print(c.binsize, c.extent(("a", 25, 35)), c.extent("a"), c.extent(("a",31,32)))
# 2 sanitize
bins = util.binnify(pd.Series({"a":20,"b":20}), 10)
san = cooler.create.sanitize_records(bins, schema="pairs")
df = pd.DataFrame({"chrom1":["a"],"pos1":[20],"chrom2":["b"],"pos2":[5]})
tryit("sanitize pos==len", lambda: san(df.copy())[["bin1_id","bin2_id"]].values.tolist())
df = pd.DataFrame({"chrom1":["a"],"pos1":[5],"chrom2":["b"],"pos2":[20]})
tryit("sanitize pos2==len last chrom", lambda: san(df.copy())[["bin1_id","bin2_id"]].values.tolist())
# 8 parse_humanized
bad=[]
for m in range(0,100000):
    s = f"{m/1000:.3f}k" 
    try:
        v = util.parse_humanized(s)
    except Exception as e:
        bad.append((s,'exc')); continue
    if v != m: bad.append((s,v,m))
print("humanized bad", len(bad), bad[:10])
tryit("region", lambda: util.parse_region_string("chr1:1.1k-2.3k"))
tryit("region", lambda: util.parse_region_string("chr1:0.29k-"))
