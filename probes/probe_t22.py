import numpy as np, pandas as pd, cooler, h5py, warnings, itertools, collections
warnings.simplefilter("ignore")
bins=cooler.util.binnify(pd.Series({"a":30,"b":20}),10); bins["gc"]=[0.1,0.2,0.3,0.4,0.5]
n=len(bins)
pix=pd.DataFrame([(0,0,1),(0,3,2),(1,2,4),(2,4,8),(4,4,16)],columns=["bin1_id","bin2_id","count"])
P="/dev/shm/t22.cool"; cooler.create_cooler(P,bins,pix,ordered=True)
c=cooler.Cooler(P)
full=c.bins()[:]; allpix=c.pixels()[:]
bad=collections.Counter(); ex={}; runs=0
# selectors
for selname,sel,N in (("chroms",c.chroms(),2),("bins",c.bins(),n),("pixels",c.pixels(),5)):
    whole=sel[:]
    vals=[None]+list(range(-N,N+1))
    for a,b in itertools.product(vals,vals):
        lo,hi,_=slice(a,b).indices(N)
        if lo>hi: continue
        runs+=1
        try:
            got=sel[a:b]
            exp=whole.iloc[lo:hi]
            if not got.equals(exp) or list(got.index)!=list(range(lo,hi)):
                bad[selname+" slice"]+=1; ex.setdefault(selname+" slice",(a,b,got,exp))
        except Exception as e:
            bad[selname+" slice EXC "+type(e).__name__]+=1; ex.setdefault(selname+" slice EXC",(a,b,str(e)[:80]))
    for s in range(-N,N):
        try:
            got=sel[s]; exp=whole.iloc[[s % N]]
            if not got.equals(exp): bad[selname+" scalar"]+=1; ex.setdefault(selname+" scalar",(s,got,exp))
        except Exception as e:
            bad[selname+" scalar EXC"]+=1; ex.setdefault(selname+" scalar EXC",(s,str(e)[:80]))
# annotate
def check(px_sel, binsarg, label):
    global runs
    runs+=1
    try:
        out=cooler.annotate(px_sel, binsarg)
    except Exception as e:
        bad[label+" EXC "+type(e).__name__]+=1; ex.setdefault(label+" EXC "+type(e).__name__,(px_sel.index.tolist(),str(e)[:80])); return
    ok = list(out.index)==list(px_sel.index)
    for k,(i,j) in enumerate(zip(px_sel.bin1_id,px_sel.bin2_id)):
        r=out.iloc[k]
        ok&= (r.chrom1==full.chrom[i] and r.start1==full.start[i] and r.end1==full.end[i] and r.gc1==full.gc[i] and r.chrom2==full.chrom[j] and r.start2==full.start[j] and r.end2==full.end[j] and r.gc2==full.gc[j])
    if not ok: bad[label]+=1; ex.setdefault(label,(px_sel,out))
for r in range(0,5):
    for idxs in itertools.permutations(range(5),r):
        ps=allpix.iloc[list(idxs)]
        check(ps, full, "full")
        check(ps, c.bins(), "selector")
        need=[*ps.bin1_id,*ps.bin2_id]
        for a in range(n+1):
            for b in range(a,n+1):
                if need and (min(need)<a or max(need)>=b): continue
                check(ps, c.bins()[a:b], "partial")
# many pixels relative to bins
for seq in itertools.product(range(3),repeat=6):
    ps=allpix.iloc[list(seq)]
    check(ps, full, "many full"); 
    need=[*ps.bin1_id,*ps.bin2_id]
    check(ps, c.bins()[min(need):max(need)+1], "many partial")
print("runs",runs,dict(bad))
for k,v in ex.items(): print(k,str(v)[:300])
