import numpy as np, pandas as pd, itertools, time, collections
from cooler.core import region_to_extent
from cooler import util
def tables(C,B,W):
    for n in range(1,B+1):
        for k in range(1,C+1):
            for cuts in itertools.combinations(range(1,n),k-1):
                parts=[b-a for a,b in zip((0,)+cuts, cuts+(n,))]
                for widths in itertools.product(W, repeat=n):
                    yield parts, widths
t=time.time(); nt=0; bad=collections.Counter(); ex={}
for parts,widths in tables(3,4,(1,2,3)):
    nt+=1
    rows=[]; k=0
    for ci,p in enumerate(parts):
        pos=0
        for _ in range(p):
            rows.append(("c%d"%ci,pos,pos+widths[k])); pos+=widths[k]; k+=1
    bins=pd.DataFrame(rows,columns=["chrom","start","end"])
    bs=util.get_binsize(bins)
    csz=util.get_chromsizes(bins)
    # is reported binsize true?
    true_fixed = bs is not None and all(s==(i_*bs) and e==min((i_+1)*bs, csz[c]) for c,g in bins.groupby("chrom",sort=False) for i_,(s,e) in enumerate(zip(g.start,g.end)))
    if bs is not None and not true_fixed:
        bad["binsize_false"]+=1; ex.setdefault("binsize_false",(rows,bs))
    off=np.r_[0,np.cumsum(parts)]
    h5={"indexes":{"chrom_offset":off},"bins":{"start":bins.start.values}}
    ids={c:i for i,c in enumerate(csz.index)}
    for c in csz.index:
        L=csz[c]; lo_c=off[ids[c]]
        g=bins[bins.chrom==c]
        for s in range(L+1):
            for e in range(s,L+1):
                lo,hi=region_to_extent(h5,ids,(c,s,e),bs)
                if s<e:
                    exp=[i for i,(bs_,be_) in zip(g.index,zip(g.start,g.end)) if bs_<e and be_>s]
                    if list(range(lo,hi))!=exp:
                        key="extent_"+("fixed" if bs is not None else "var")+("_truefixed" if true_fixed else "")
                        bad[key]+=1; ex.setdefault(key,(rows,bs,(c,s,e),(lo,hi),exp))
                else:
                    sel=list(range(lo,hi))
                    ok = len(sel)==0 or (len(sel)==1 and sel[0] in g.index and g.start[sel[0]]<=s<=g.end[sel[0]])
                    if not ok:
                        key="empty_"+("fixed" if bs is not None else "var")+("_truefixed" if true_fixed else "")
                        bad[key]+=1; ex.setdefault(key,(rows,bs,(c,s,e),(lo,hi)))
print(nt, time.time()-t, dict(bad))
for k,v in ex.items(): print(k, v)
