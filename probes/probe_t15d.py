import numpy as np, pandas as pd, cooler, warnings, itertools, time, statistics
warnings.simplefilter("ignore")
rng=np.random.default_rng(2)
def ref_balance(A, chrom_of, mode="gw", ignore_diags=2, min_nnz=10, min_count=0, mad_max=5, blacklist=None, x0=None, tol=1e-5, max_iters=200, rescale=True, double_diag=False):
    """A: dense symmetric matrix (list/array). Documented iterative correction."""
    A=np.array(A,dtype=float); n=len(A)
    idx=np.arange(n); d=np.abs(idx[:,None]-idx[None,:])
    same=np.array(chrom_of)[:,None]==np.array(chrom_of)[None,:]
    F=A.copy()
    if double_diag: F[idx,idx]*=2   # what the implementation's marginal does
    if ignore_diags: F[d<ignore_diags]=0
    if mode=="cis": F[~same]=0
    bias=np.ones(n) if x0 is None else np.where(np.isnan(x0),0,np.array(x0,dtype=float))
    if min_nnz>0:
        nnzc=(F!=0).sum(1)+((np.diag(F)!=0) if double_diag else 0); bias[nnzc < min_nnz]=0
    marg=F.sum(1)
    if min_count: bias[marg<min_count]=0
    if mad_max>0:
        m=marg.copy()
        for c in sorted(set(chrom_of)):
            sel=np.array(chrom_of)==c
            pos=m[sel][m[sel]>0]
            m[sel]=m[sel]/np.median(pos) if len(pos) else m[sel]/np.nan
        lg=np.log(m[m>0]); med=np.median(lg); dev=np.median(np.abs(lg-med))
        bias[m<np.exp(med-mad_max*dev)]=0
    if blacklist is not None: bias[list(blacklist)]=0
    def sweep(F,bias,sel):
        var=np.nan; scale=1.0; nz=np.array([])
        conv=False
        for _ in range(max_iters):
            marg=(bias[sel][:,None]*F[np.ix_(sel,sel)]*bias[sel][None,:]).sum(1)
            nz=marg[marg!=0]
            if not len(nz):
                bias[sel]=np.nan; return np.nan,0.0
            mm=marg/nz.mean(); mm[mm==0]=1; bias[sel]=bias[sel]/mm
            var=nz.var()
            if var<tol: break
        scale=nz.mean()
        b=bias[sel]; b[b==0]=np.nan
        if rescale: b=b/np.sqrt(scale)
        bias[sel]=b
        return scale,var
    if mode=="cis":
        scales=[];vars_=[]
        for c in sorted(set(chrom_of)):
            sel=np.where(np.array(chrom_of)==c)[0]
            s,v=sweep(F,bias,sel); scales.append(s); vars_.append(v)
        return bias,np.array(scales),np.array(vars_)
    s,v=sweep(F,bias,np.arange(n))
    return bias,s,v
def build(lens, A):
    bins = cooler.util.binnify(pd.Series(lens), 10)
    i,j=np.nonzero(np.triu(A))
    pix=pd.DataFrame({"bin1_id":i,"bin2_id":j,"count":A[i,j]})
    cooler.create_cooler("/dev/shm/b15.cool",bins,pix,ordered=True, h5opts=dict(compression=None,shuffle=False))
    return cooler.Cooler("/dev/shm/b15.cool"), bins
nrun=0; bad=0; maxrel=0; cat={}
t=time.time()
for lens in ({"a":60},{"a":40,"b":30},{"a":30,"b":20,"c":30}):
  for trial in range(3):
    n=sum(lens.values())//10
    A=rng.integers(0,9,size=(n,n))*(rng.random((n,n))<rng.choice([0.6,0.9,1.0])); A=np.triu(A); A=A+np.triu(A,1).T
    clr,bins=build(lens,A); ch=bins["chrom"].cat.codes.values.tolist()
    for cis,igd,mn,mad,mc,bl in itertools.product((False,True),(0,1,2),(0,2,4),(0,1,3),(0,15),(None,[1,4])):
        nrun+=1
        kw=dict(ignore_diags=igd,min_nnz=mn,mad_max=mad,min_count=mc,blacklist=bl,tol=1e-5,max_iters=30)
        w,st=cooler.balance_cooler(clr,cis_only=cis,**kw)
        rw,rs,rv=ref_balance(A,ch,mode="cis" if cis else "gw",double_diag=True,**kw)
        same_nan=np.array_equal(np.isnan(w),np.isnan(rw))
        ok=same_nan and np.allclose(np.nan_to_num(w),np.nan_to_num(rw),rtol=1e-9,atol=0) and np.allclose(np.nan_to_num(np.atleast_1d(st["scale"])),np.nan_to_num(np.atleast_1d(rs)),rtol=1e-9)
        if same_nan:
            fin=~np.isnan(w)
            if fin.any(): maxrel=max(maxrel,np.max(np.abs(w[fin]-rw[fin])/np.abs(rw[fin])))
        if not ok:
            bad+=1; cat[(cis,igd,mn>0,mad)]=cat.get((cis,igd,mn>0,mad),0)+1
            if bad<6: print("MISMATCH",lens,cis,kw,"\n impl",w,st["scale"],"\n ref ",rw,rs)
print(cat); print("runs",nrun,"mismatch",bad,"max rel diff",maxrel,"time",time.time()-t)
