import numpy as np, itertools, time, sys
from cooler.core import CSRReader, FillLowerRangeQuery2D, DirectRangeQuery2D
def run(n, symm, stride=1):
    cells = [(i,j) for i in range(n) for j in range(n) if (i<=j or not symm)]
    wins = [(a,b) for a in range(n+1) for b in range(a,n+1)]
    bad=0; q=0; t=time.time()
    for pat in range(0, 2**len(cells), stride):
        sel = [c for k,c in enumerate(cells) if pat>>k&1]
        b1 = np.array([c[0] for c in sel],dtype=np.int64); b2=np.array([c[1] for c in sel],dtype=np.int64)
        v = 1+b1*n+b2
        M = np.zeros((n,n),dtype=np.int64); M[b1,b2]=v
        if symm: M = M + np.triu(M,1).T
        off = np.searchsorted(b1, np.arange(n+1))
        r = CSRReader({"bin1_id":b1,"bin2_id":b2,"count":v}, off)
        for (i0,i1) in wins:
            for (j0,j1) in wins:
                for cs in (1,2,10**7):
                    eng = (FillLowerRangeQuery2D if symm else DirectRangeQuery2D)(r,"count",(i0,i1,j0,j1),cs)
                    sp = eng.to_sparse_matrix()
                    q+=1
                    A = sp.toarray()
                    dup = len(set(zip(sp.row.tolist(),sp.col.tolist()))) != sp.nnz
                    if dup or not np.array_equal(A, M[i0:i1,j0:j1]):
                        bad+=1
                        if bad<5: print("BAD",n,symm,sel,(i0,i1,j0,j1),cs)
    dt=time.time()-t
    print(f"n={n} symm={symm} queries={q} bad={bad} rate={q/dt:.0f}/s time={dt:.1f}s")
run(3,True); run(3,False, stride=4); run(4,True, stride=16)
