import numpy as np, pandas as pd, cooler, h5py, warnings, os, shutil, hashlib, collections
warnings.simplefilter("ignore")
import h5py._hl.dataset as D, h5py._hl.group as G, h5py._hl.attrs as At, h5py._hl.files as Fi
class Fault(OSError): pass
state={"k":0,"fail_at":None,"on":False,"log":[]}
def wrap(cls,name,label):
    o=getattr(cls,name)
    def w(self,*a,**k):
        if state["on"]:
            if label=="File" and not isinstance(a[0],(str,bytes)): return o(self,*a,**k)
            state["k"]+=1; state["log"].append(label)
            if state["k"]==state["fail_at"]: raise Fault("injected at %d %s"%(state["k"],label))
        return o(self,*a,**k)
    setattr(cls,name,w)
for cls,name,label in [(Fi.File,"__init__","File"),(D.Dataset,"__setitem__","D.set"),(D.Dataset,"resize","D.resize"),(G.Group,"create_dataset","G.create_dataset"),(G.Group,"create_group","G.create_group"),(G.Group,"__setitem__","G.link"),(G.Group,"__delitem__","G.del"),(At.AttributeManager,"__setitem__","A.set")]:
    wrap(cls,name,label)
bins=cooler.util.binnify(pd.Series({"a":20,"b":20}),10)
def px(rows): return pd.DataFrame(rows,columns=["bin1_id","bin2_id","count"])
def canon(path, skip=None):
    out={}
    with h5py.File(path,"r") as f:
        def visit(name,obj):
            if skip and ("/"+name==skip or ("/"+name).startswith(skip+"/")): return
            at={k:str(v) for k,v in obj.attrs.items() if k not in("creation-date",)}
            out[name]=(str(at), obj[()].tobytes() if isinstance(obj,h5py.Dataset) else None)
        f.visititems(visit)
        out["/attrs"]=str({k:str(v) for k,v in f.attrs.items() if k!="creation-date"})
    return hashlib.md5(repr(sorted(out.items())).encode()).hexdigest()
BASE="/dev/shm/f21_base.cool"; W="/dev/shm/f21.cool"
if os.path.exists(BASE): os.remove(BASE)
cooler.create_cooler(BASE+"::/n1",bins,px([(0,0,1),(1,2,3)]),ordered=True)
cooler.create_cooler(BASE+"::/n2/deep",bins,px([(0,3,7)]),ordered=True,mode="a")
with h5py.File(BASE,"r+") as f:
    g=f.create_group("foreign"); g.attrs["x"]=1; g.create_dataset("d",data=np.arange(3)); f.create_group("emptygrp"); f.attrs["custom"]="keep"
chunks=[px([(0,0,1),(0,2,5)]),px([(1,1,2)]),px([(2,3,4)])]
res=collections.Counter(); problems=[]
for dest in ("/new","/emptygrp","/","/n2/new"):
    # fault-free run to count
    shutil.copy(BASE,W); state.update(k=0,fail_at=None,on=True,log=[])
    cooler.create_cooler(W+"::"+dest,bins,iter(chunks),ordered=True,mode="a"); state["on"]=False
    N=state["k"]; print(dest,"N calls",N, collections.Counter(state["log"]))
    before=canon(BASE, skip=None if dest=="/" else dest)
    for k in range(1,N+1):
        shutil.copy(BASE,W); state.update(k=0,fail_at=k,on=True,log=[])
        try:
            cooler.create_cooler(W+"::"+dest,bins,iter(chunks),ordered=True,mode="a"); raised=False
        except Fault: raised=True
        except Exception as e: raised=True; problems.append((dest,k,"other exc",type(e).__name__,str(e)[:80]))
        state["on"]=False
        try:
            ic=cooler.fileops.is_cooler(W+"::"+dest)
        except Exception as e:
            ic="EXC:"+type(e).__name__
        lst=cooler.fileops.list_coolers(W)
        if dest=="/":
            # compare non-root stuff: remove root tables from comparison
            with h5py.File(W,"r") as f: pass
            same=None
        else:
            same = canon(W,skip=dest)==before
        res[(dest,raised,str(ic),dest in lst,same)]+=1
        if ic is True or dest in lst or same is False:
            problems.append((dest,k,state["log"][-1] if state["log"] else None,"is_cooler",ic,"listed",dest in lst,"neighbours same",same))
for k,v in sorted(res.items(),key=str): print(k,v)
print("problems",len(problems)); 
for p in problems[:12]: print(p)
