import subprocess, pandas as pd, cooler, warnings, io
warnings.simplefilter("ignore")
# pairs layout: score pos1 chrom1 pos2 chrom2  (1-based columns: score=1,pos1=2,chrom1=3,pos2=4,chrom2=5)
rows = [(7, 3,"a", 25,"a"), (5, 12,"a", 4,"b"), (2, 3,"a", 26,"a")]
with open("p.txt","w") as f:
    for r in rows: f.write("\t".join(map(str,r))+"\n")
def run(args):
    r = subprocess.run(["/venv/bin/cooler"]+args, capture_output=True, text=True)
    print(" ".join(args), "->", r.returncode, r.stderr.strip().splitlines()[-1:] )
run(["cload","pairs","-c1","3","-p1","2","-c2","5","-p2","4","-0","cs.txt:10","p.txt","o.cool"])
try: print(cooler.Cooler("o.cool").pixels()[:].values.tolist())
except Exception as e: print("EXC", e)
run(["cload","pairs","-c1","3","-p1","2","-c2","5","-p2","4","-0","--field","score=1","cs.txt:10","p.txt","o2.cool"])
try: print(cooler.Cooler("o2.cool").pixels()[:].values.tolist())
except Exception as e: print("EXC", e)
# monotone layout with field after
with open("p2.txt","w") as f:
    for s,p1,c1,p2,c2 in rows: f.write("\t".join(map(str,(c1,p1,c2,p2,s)))+"\n")
run(["cload","pairs","-c1","1","-p1","2","-c2","3","-p2","4","-0","--field","score=5","cs.txt:10","p2.txt","o3.cool"])
print(cooler.Cooler("o3.cool").pixels()[:].values.tolist())
# layout with pos cols swapped order : c1 c2 p1 p2 
with open("p3.txt","w") as f:
    for s,p1,c1,p2,c2 in rows: f.write("\t".join(map(str,(c1,c2,p2,p1)))+"\n")
run(["cload","pairs","-c1","1","-p1","4","-c2","2","-p2","3","-0","cs.txt:10","p3.txt","o4.cool"])
print(cooler.Cooler("o4.cool").pixels()[:].values.tolist())
# coo load with value field in front: count bin1 bin2? load coo has fixed numbers 0,1,2 but --field count=... 
with open("c.txt","w") as f:
    f.write("9\t0\t1\n8\t1\t4\n")
run(["load","-f","coo","--field","count=1","cs.txt:10","c.txt","o5.cool"])
try: print(cooler.Cooler("o5.cool").pixels()[:].values.tolist())
except Exception as e: print("EXC", e)
