import numpy as np, pandas as pd, cooler, h5py, warnings, traceback, os, glob, shutil
from cooler import util, fileops
warnings.simplefilter("ignore")
def tryit(name, f):
    try:
        print(name, "->", f())
    except Exception as e:
        print(name, "EXC", type(e).__name__, str(e)[:300])
bins = util.binnify(pd.Series({"a":30,"b":20}), 10)
def px(rows):
    return pd.DataFrame(rows, columns=["bin1_id","bin2_id","count"])
A="/dev/shm/A.cool"; B="/dev/shm/B.cool"
for p in (A,B):
    if os.path.exists(p): os.remove(p)
cooler.create_cooler(A, bins, px([(0,0,1),(0,3,2),(2,4,5)]), ordered=True)
cooler.create_cooler(A+"::/x/y", bins, px([(1,1,7)]), ordered=True, mode="a")
print(fileops.list_coolers(A))
tryit("is_cooler nonexist group", lambda: fileops.is_cooler(A+"::/nope"))
tryit("is_cooler nonexist file", lambda: fileops.is_cooler("/dev/shm/nope.cool"))
tryit("is_cooler dataset", lambda: fileops.is_cooler(A+"::/bins/start"))
tryit("is_cooler intermediate", lambda: fileops.is_cooler(A+"::/x"))
tryit("cp root->same file sub", lambda: (fileops.cp(A, A+"::/copy"), fileops.list_coolers(A))[1])
tryit("mv root", lambda: (fileops.mv(A, A+"::/moved"),)[0])
tryit("list after mv root", lambda: fileops.list_coolers(A))
tryit("cp nested->other root", lambda: (fileops.cp(A+"::/x/y", B), fileops.list_coolers(B))[1])
tryit("cp root->other root again (occupied)", lambda: (fileops.cp(A, B), fileops.list_coolers(B))[1])
tryit("ln soft", lambda: (fileops.ln(A+"::/x/y", A+"::/soft", soft=True), fileops.list_coolers(A))[1])
tryit("ln ext", lambda: (fileops.ln(A+"::/x/y", B+"::/ext", soft=True), fileops.list_coolers(B), cooler.Cooler(B+"::/ext").pixels()[:].values.tolist())[1:])
tryit("no leading slash", lambda: (fileops.cp(A+"::x/y", B+"::q/r"), fileops.list_coolers(B))[1])
# recreate root in append mode with extra attr
with h5py.File(B,"r+") as f: f.attrs["custom"]=5; f["/q"].attrs["keep"]=1
cooler.create_cooler(B, bins, px([(0,1,9)]), ordered=True, mode="a", metadata={"k":1})
print(fileops.list_coolers(B), dict(h5py.File(B,"r").attrs).keys())
