import numpy as np, pandas as pd, cooler, h5py, warnings, time, itertools, dill, collections
from cooler import util
import cooler._reduce as R
warnings.simplefilter("ignore")
cs = pd.Series({"a":30,"b":20,"c":10})
bins = util.binnify(cs, 10); n=len(bins)
A = np.triu(np.arange(1,n*n+1).reshape(n,n)); i,j=np.nonzero(A)
pix = pd.DataFrame({"bin1_id":i,"bin2_id":j,"count":A[i,j]})
P="/dev/shm/t13.cool"; cooler.create_cooler(P,bins,pix,ordered=True)

class VLock:
    def __init__(s): s.held=False; s.log=[]
    def acquire(s,*a,**k):
        if s.held: raise RuntimeError("DEADLOCK")
        s.held=True; s.log.append("acq"); return True
    def release(s): 
        assert s.held; s.held=False; s.log.append("rel")
class VPool:
    order=None; calls=[]
    def __init__(s,n=None,*a,**k): s.n=n
    def map(s,f,items):
        items=list(items)
        fb=dill.dumps(f)
        perm = VPool.order(len(items)) if VPool.order else list(range(len(items)))
        VPool.calls.append(len(items))
        res=[None]*len(items)
        for k in perm:
            g=dill.loads(fb); arg=dill.loads(dill.dumps(items[k]))
            res[k]=dill.loads(dill.dumps(g(arg)))
        return res
    def close(s): pass
    def join(s): pass
R.mp.Pool=VPool
vl=VLock(); R.lock=vl; cooler.parallel.lock=vl
# log h5py file opens
orig_init=h5py.File.__init__
oplog=[]
def init(self,name,mode="r",*a,**k):
    oplog.append((str(name)[-12:],mode, vl.held))
    return orig_init(self,name,mode,*a,**k)
h5py.File.__init__=init
t=time.time()
VPool.order=lambda k: list(range(k))[::-1]
cooler.coarsen_cooler(P,"/dev/shm/t13c.cool",2,chunksize=2,nproc=3)
print("time",time.time()-t, "batches",VPool.calls)
print(cooler.Cooler("/dev/shm/t13c.cool").pixels()[:].values.tolist())
print(vl.log[:12], len(oplog)); print(oplog[:14])
# patching other h5py api
cnt=collections.Counter()
import h5py._hl.dataset as D, h5py._hl.group as G, h5py._hl.attrs as At
for cls,name in [(D.Dataset,"__setitem__"),(D.Dataset,"resize"),(G.Group,"create_dataset"),(G.Group,"create_group"),(G.Group,"__setitem__"),(G.Group,"__delitem__"),(At.AttributeManager,"__setitem__"),(At.AttributeManager,"create")]:
    o=getattr(cls,name)
    def mk(o,label):
        def w(self,*a,**k):
            cnt[label]+=1
            return o(self,*a,**k)
        return w
    setattr(cls,name,mk(o,cls.__name__+"."+name))
oplog.clear()
cooler.create_cooler("/dev/shm/t13d.cool",bins,iter([pix[:3],pix[3:]]),ordered=True)
print(dict(cnt), "file opens", len(oplog))
