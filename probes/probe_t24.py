import numpy as np, pandas as pd, cooler, h5py, warnings, itertools, collections, io
warnings.simplefilter("ignore")
from cooler.cli import cli
from click.testing import CliRunner
R=CliRunner()
bins=cooler.util.binnify(pd.Series({"a":30,"b":20}),10); n=5
w=np.array([0.5,np.nan,2.0,1.5,0.75]); bins["weight"]=w; bins["KR"]=w*2
A=np.triu(np.arange(1,26).reshape(5,5)); A[1,3]=0; A[2,2]=0
i,j=np.nonzero(A); pix=pd.DataFrame({"bin1_id":i,"bin2_id":j,"count":A[i,j]})
bad=collections.Counter(); ex={}; runs=0
for symm in (True,False):
    if not symm:
        A2=np.arange(1,26).reshape(5,5); A2[1,3]=0; A2[3,0]=0; i,j=np.nonzero(A2); pixs=pd.DataFrame({"bin1_id":i,"bin2_id":j,"count":A2[i,j]}); full=A2.astype(float)
    else:
        pixs=pix; full=(A+np.triu(A,1).T).astype(float)
    P="/dev/shm/t24.cool"; cooler.create_cooler(P,bins,pixs,ordered=True,symmetric_upper=symm)
    c=cooler.Cooler(P)
    wins=[(a,b) for a in range(n+1) for b in range(a,n+1)]
    for (i0,i1),(j0,j1) in itertools.product(wins,wins):
        for bal,div in ((True,None),("KR",None),("KR",False),("weight",True)):
            ww = w if bal in (True,"weight") else w*2
            isdiv = div if div is not None else (bal=="KR")
            g = (1/ww) if isdiv else ww
            exp = full[i0:i1,j0:j1]*np.outer(g[i0:i1],g[j0:j1])
            runs+=1
            d=c.matrix(balance=bal,divisive_weights=div)[i0:i1,j0:j1]
            if not np.allclose(d,exp,rtol=1e-12,equal_nan=True): bad["dense"]+=1; ex.setdefault("dense",(symm,i0,i1,j0,j1,bal,div))
            sp=c.matrix(balance=bal,divisive_weights=div,sparse=True)[i0:i1,j0:j1]
            e2=np.zeros_like(exp); 
            raw=full[i0:i1,j0:j1]
            m=raw!=0
            e2[m]=exp[m]
            if not np.allclose(sp.toarray(),e2,rtol=1e-12,equal_nan=True): bad["sparse"]+=1; ex.setdefault("sparse",(symm,i0,i1,j0,j1,bal,div,sp.toarray(),e2))
            px=c.matrix(balance=bal,divisive_weights=div,as_pixels=True)[i0:i1,j0:j1]
            for r in px.itertuples():
                v=r.count*g[r.bin1_id]*g[r.bin2_id]
                if not (np.isclose(r.balanced,v,rtol=1e-12) or (np.isnan(v) and np.isnan(r.balanced))): bad["pixels"]+=1; ex.setdefault("pixels",(symm,i0,i1,j0,j1,bal,div))
    # dump vs api for bin aligned region pairs
    regs=[("a",s*10,e*10) for s in range(3) for e in range(s+1,4)]+[("b",s*10,e*10) for s in range(2) for e in range(s+1,3)]
    for r1,r2 in itertools.product(regs,regs):
        for fill in (False,True):
            runs+=1
            args=["dump","-r","%s:%d-%d"%r1,"-r2","%s:%d-%d"%r2,"-b"]+(["-f"] if fill else [])+["--float-format",".17g",P]
            res=R.invoke(cli,args)
            if res.exit_code!=0: bad["dump exit"]+=1; ex.setdefault("dump exit",(args,res.output[:200],str(res.exception))); continue
            rows=[l.split("\t") for l in res.output.rstrip("\n").split("\n") if l]
            got={(int(a),int(b)):(float(v), float(bv) if bv!="" else np.nan) for a,b,v,bv in rows}
            i0,i1=c.extent(r1); j0,j1=c.extent(r2)
            exp={}
            if fill and symm:
                for a in range(i0,i1):
                    for b in range(j0,j1):
                        if full[a,b]!=0: exp[(a,b)]=(full[a,b], full[a,b]*w[a]*w[b])
            else:
                for a,b,v in pixs.values:
                    if i0<=a<i1 and j0<=b<j1: exp[(a,b)]=(float(v), v*w[a]*w[b])
            ok = set(got)==set(exp) and len(rows)==len(exp) and all(got[k][0]==exp[k][0] and (np.isclose(got[k][1],exp[k][1],rtol=1e-12) or (np.isnan(got[k][1]) and np.isnan(exp[k][1]))) for k in exp)
            if not ok: bad["dump"]+=1; ex.setdefault("dump",(symm,args,got,exp))
print("runs",runs,dict(bad))
for k,v in ex.items(): print(k,str(v)[:600])
