import numpy as np, pandas as pd, cooler, warnings, itertools, time, collections, os
warnings.simplefilter("ignore")
import logging
def tables():
    # (parts, widths)
    yield [4],[2,2,2,2]
    yield [3,2],[2,2,1,2,2]
    yield [1,3,1],[3,2,2,2,1]
    yield [3,3],[1,2,3,2,2,2]
    yield [5],[1,1,1,1,1]
    yield [2,1,2],[2,2,5,2,1]
    yield [3,2],[2,2,2,3,3]
def mk(parts,widths):
    rows=[];k=0
    for ci,p in enumerate(parts):
        pos=0
        for _ in range(p):
            rows.append(("c%d"%ci,pos,pos+widths[k])); pos+=widths[k]; k+=1
    return pd.DataFrame(rows,columns=["chrom","start","end"])
def ref_coarsen(bins, pix, k):
    # rank within chrom
    newid={}; newbins=[]
    for c,g in bins.groupby("chrom",sort=False):
        idx=list(g.index)
        for r in range(0,len(idx),k):
            grp=idx[r:r+k]
            for b in grp: newid[b]=len(newbins)
            newbins.append((c,int(bins.start[grp[0]]),int(bins.end[grp[-1]])))
    out=collections.Counter()
    for (i,j),v in pix.items(): out[(newid[i],newid[j])]+=v
    return newbins, dict(out)
bad=0;runs=0
t=time.time()
for parts,widths in tables():
    bins=mk(parts,widths); n=len(bins)
    truefixed = cooler.util.get_binsize(bins)
    cells=[(i,j) for i in range(n) for j in range(i,n)]
    fams=[cells, [(i,i) for i in range(n)], [(0,j) for j in range(n)], [(i,n-1) for i in range(n)], [c for c in cells if (c[0]+c[1])%2==0], [], [(n-1,n-1)], [(0,n-1)]]
    for cellsel in fams:
        pixd={(i,j):1+i*n+j for (i,j) in cellsel}
        df=pd.DataFrame([(i,j,v) for (i,j),v in sorted(pixd.items())],columns=["bin1_id","bin2_id","count"])
        cooler.create_cooler("/dev/shm/c16.cool",bins,df,ordered=True,h5opts=dict(compression=None,shuffle=False))
        for k in (2,3,4,7):
            for cs in (1,2,3,10**6):
                runs+=1
                try:
                    cooler.coarsen_cooler("/dev/shm/c16.cool","/dev/shm/c16o.cool",k,chunksize=cs)
                    c=cooler.Cooler("/dev/shm/c16o.cool")
                    got_bins=[tuple(r) for r in c.bins()[:][["chrom","start","end"]].astype({"chrom":str}).itertuples(index=False)]
                    got=c.pixels()[:]; gotd={(int(a),int(b)):int(v) for a,b,v in got.values}
                    rb,rp=ref_coarsen(bins,pixd,k)
                    ok = got_bins==rb and gotd==rp and len(got)==len(gotd)
                    if not ok:
                        bad+=1
                        if bad<8: print("BAD",parts,widths,"binsize",truefixed,"k",k,"cs",cs,"cells",cellsel[:4],"\n got",got_bins,gotd,"\n ref",rb,rp)
                except Exception as e:
                    bad+=1
                    if bad<8: print("EXC",parts,widths,k,cs,type(e).__name__,str(e)[:100])
print("runs",runs,"bad",bad,time.time()-t)
