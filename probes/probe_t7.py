import numpy as np, pandas as pd, cooler, h5py, warnings, time, io, contextlib, os
from cooler import util
warnings.simplefilter("ignore")
def tryit(name, f):
    try:
        print(name, "->", f())
    except BaseException as e:
        print(name, "EXC", type(e).__name__, str(e)[:300])
bins = util.binnify(pd.Series({"a":30,"b":20}), 10)
def px(rows):
    return pd.DataFrame(rows, columns=["bin1_id","bin2_id","count"])
P="/dev/shm/t7.cool"
for asm in ["hg19","1","null","true","1e5","T2T-CHM13v2.0", "[x]", '"q"']:
    cooler.create_cooler(P, bins, px([(0,0,1),(0,3,2),(2,4,5)]), ordered=True, assembly=asm, metadata={"a":[1,2.5,None,True,"ü"],"b":{"c":"d"}})
    i = cooler.Cooler(P).info
    print(repr(asm), "->", repr(i["genome-assembly"]), i["metadata"], type(i["sum"]), type(i["nnz"]), i["bin-size"], type(i["bin-size"]))
for md in [[1,2], "str", 0, 1.5, True, {}, {"1":2}]:
    cooler.create_cooler(P, bins, px([(0,0,1)]), ordered=True, metadata=md)
    print(repr(md), "->", repr(cooler.Cooler(P).info["metadata"]))
# CLI in-process
from cooler.cli import cli
from click.testing import CliRunner
r = CliRunner()
t=time.time()
for k in range(10):
    res = r.invoke(cli, ["dump", P])
print("cli dump s/call", (time.time()-t)/10, res.exit_code, repr(res.output))
res = r.invoke(cli, ["dump","--one-based-ids", P]); print("one-based-ids:", repr(res.output))
res = r.invoke(cli, ["dump","--one-based-ids","--join", P]); print("one-based-ids+join:", repr(res.output))
res = r.invoke(cli, ["dump","--one-based-starts","--join", P]); print("one-based-starts+join:", repr(res.output))
res = r.invoke(cli, ["dump","-r","a:10-30","-r2","b", P]); print("range:", repr(res.output), res.exception)
cooler.create_cooler(P, bins, px([(0,0,1),(0,3,2),(2,4,5)]), ordered=True)
res = r.invoke(cli, ["dump","-f","-r","a:0-30","-r2","a:0-30","b", P]); print("x:", repr(res.output), res.exception)
res = r.invoke(cli, ["dump","-f", P]); print("fill:", repr(res.output), res.exception)
