import numpy as np, pandas as pd, cooler, warnings, itertools, time, collections, os, glob
warnings.simplefilter("ignore")
bins=cooler.util.binnify(pd.Series({"a":20,"b":20}),10)
def osp(items):
    # ordered set partitions
    if not items: yield []; return
    first,rest=items[0],items[1:]
    for p in osp(rest):
        for i in range(len(p)):
            yield p[:i]+[[first]+p[i]]+p[i+1:]
        for i in range(len(p)+1):
            yield p[:i]+[[first]]+p[i:]
recs=[((0,0),1),((0,3),2),((1,2),4),((0,3),8)]
bad=collections.Counter(); runs=0; ex={}
t=time.time()
os.makedirs("/dev/shm/tmp17",exist_ok=True)
for m in (2,3,4):
    R=recs[:m]
    ref=collections.Counter()
    for p,v in R: ref[p]+=v
    for part in osp(list(range(m))):
        # skip chunks with duplicate pixel within chunk
        if any(len({R[i][0] for i in ch})<len(ch) for ch in part): continue
        chunks=[pd.DataFrame(sorted([(R[i][0][0],R[i][0][1],R[i][1]) for i in ch]),columns=["bin1_id","bin2_id","count"]) for ch in part]
        for mb in (1,2,3,10**6):
            for mm in (1,2,3,200):
                runs+=1
                try:
                    cooler.create_cooler("/dev/shm/u17.cool",bins,iter(chunks),ordered=False,mergebuf=mb,max_merge=mm,temp_dir="/dev/shm/tmp17",h5opts=dict(compression=None,shuffle=False))
                    got={(int(a),int(b)):int(v) for a,b,v in cooler.Cooler("/dev/shm/u17.cool").pixels()[:].values}
                    if got!=dict(ref):
                        bad["wrong"]+=1; ex.setdefault("wrong",(part,mb,mm,got,dict(ref)))
                except Exception as e:
                    key=type(e).__name__+(":n=%d,mm=%d"%(len(chunks),mm))
                    bad[key]+=1
                if glob.glob("/dev/shm/tmp17/*"):
                    bad["tempfile"]+=1; ex.setdefault("tempfile",(part,mb,mm,glob.glob("/dev/shm/tmp17/*")))
                    for f in glob.glob("/dev/shm/tmp17/*"): os.remove(f)
print("runs",runs,dict(bad),time.time()-t); print(ex)
