import numpy as np, pandas as pd, cooler, warnings, glob, gc, os, sys, tempfile, weakref
warnings.simplefilter("ignore")
bins=cooler.util.binnify(pd.Series({"a":20,"b":20}),10)
os.makedirs("/dev/shm/tmp19",exist_ok=True)
for f in glob.glob("/dev/shm/tmp19/*"): os.remove(f)
orig=tempfile.NamedTemporaryFile
refs=[]
def ntf(*a,**k):
    t=orig(*a,**k); refs.append((t.name, weakref.ref(t))); return t
tempfile.NamedTemporaryFile=ntf
def chunks(): return iter([pd.DataFrame([(0,0,1),(0,3,2)],columns=["bin1_id","bin2_id","count"])])
for k in range(2):
    cooler.create_cooler("/dev/shm/u19.cool",bins,chunks(),ordered=False,mergebuf=1,temp_dir="/dev/shm/tmp19")
    gc.collect()
    for name,r in refs:
        print("call",k,name[-20:],"alive" if r() is not None else "dead","exists",os.path.exists(name), os.path.getsize(name) if os.path.exists(name) else None)
    if k==0:
        o=refs[0][1]()
        if o is not None:
            import types
            for ref in gc.get_referrers(o):
                print("  referrer:", type(ref), (list(ref.keys())[:8] if isinstance(ref,dict) else str(ref)[:120]))
o=None
import inspect
fr=[f for f in gc.get_objects() if inspect.isframe(f) and f.f_code.co_name=="create_from_unordered"]
print("frames",fr)
for f in fr:
    for ref in gc.get_referrers(f):
        if ref is fr: continue
        print(" frame referrer:", type(ref), str(ref)[:200])
        if inspect.istraceback(ref) or type(ref).__name__=="traceback":
            for r2 in gc.get_referrers(ref):
                print("    tb referrer:", type(r2), str(r2)[:300])
                for r3 in gc.get_referrers(r2):
                    if type(r3).__name__ in ("list","dict","frame"): continue
                    print("       r3:", type(r3), str(r3)[:200])
