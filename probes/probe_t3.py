import numpy as np, pandas as pd, cooler, h5py, warnings, traceback, os, glob
from cooler import util
warnings.simplefilter("ignore")
def tryit(name, f):
    try:
        print(name, "->", f())
    except Exception as e:
        print(name, "EXC", type(e).__name__, str(e)[:300])
bins = util.binnify(pd.Series({"a":30,"b":20}), 10)
def px(rows):
    return pd.DataFrame(rows, columns=["bin1_id","bin2_id","count"])
# 3 zoomify with 2 bases
cooler.create_cooler("/dev/shm/b10.cool", bins, px([(0,0,1),(0,3,2),(2,4,5)]), ordered=True)
bins15 = util.binnify(pd.Series({"a":30,"b":20}), 15)
cooler.create_cooler("/dev/shm/b15.cool", bins15, px([(0,0,1),(0,3,2),(1,2,5)]), ordered=True)
tryit("zoomify 2 bases", lambda: (cooler.zoomify_cooler(["/dev/shm/b10.cool","/dev/shm/b15.cool"], "/dev/shm/z.mcool", [10,15,20,30], chunksize=2), cooler.fileops.list_coolers("/dev/shm/z.mcool"))[1])
tryit("zoomify 1 base", lambda: (cooler.zoomify_cooler(["/dev/shm/b10.cool"], "/dev/shm/z.mcool", [20,30,60], chunksize=2), cooler.fileops.list_coolers("/dev/shm/z.mcool"), cooler.fileops.is_multires_file("/dev/shm/z.mcool"))[1:])
# 4 unordered n chunks & max_merge
for n in (1,2,3,4,5):
    for mm in (1,2,3):
        chunks = [px([(i%5, 4, 1)]) for i in range(n)]
        def f():
            cooler.create_cooler("/dev/shm/u.cool", bins, iter(chunks), ordered=False, max_merge=mm, mergebuf=1)
            return cooler.Cooler("/dev/shm/u.cool").pixels()[:].values.tolist()
        tryit(f"unordered n={n} max_merge={mm}", f)
tryit("unordered 0 chunks", lambda: cooler.create_cooler("/dev/shm/u.cool", bins, iter([]), ordered=False))
tryit("unordered 1 empty chunk", lambda: cooler.create_cooler("/dev/shm/u.cool", bins, iter([px([])]), ordered=False))
print("leftover temp:", glob.glob("/dev/shm/*.multi.cool"))
# 5 merge all-empty
cooler.create_cooler("/dev/shm/e1.cool", bins, px([]), ordered=True)
cooler.create_cooler("/dev/shm/e2.cool", bins, px([]), ordered=True)
tryit("merge empties", lambda: cooler.merge_coolers("/dev/shm/m.cool", ["/dev/shm/e1.cool","/dev/shm/e2.cool"], mergebuf=10))
tryit("merge empty+nonempty", lambda: (cooler.merge_coolers("/dev/shm/m.cool", ["/dev/shm/e1.cool","/dev/shm/b10.cool"], mergebuf=10), cooler.Cooler("/dev/shm/m.cool").pixels()[:].values.tolist())[1])
# 6 overflow
big = 2**31-1
cooler.create_cooler("/dev/shm/o1.cool", bins, px([(0,0,big)]), ordered=True)
tryit("merge overflow", lambda: (cooler.merge_coolers("/dev/shm/m.cool", ["/dev/shm/o1.cool","/dev/shm/o1.cool"], mergebuf=10), cooler.Cooler("/dev/shm/m.cool").pixels()[:].values.tolist(), cooler.Cooler("/dev/shm/m.cool").info["sum"], cooler.Cooler("/dev/shm/m.cool").pixels()[:].dtypes.to_dict())[1:])
tryit("coarsen overflow", lambda: (cooler.create_cooler("/dev/shm/o2.cool", bins, px([(0,0,big),(0,1,big)]), ordered=True), cooler.coarsen_cooler("/dev/shm/o2.cool","/dev/shm/o3.cool",2,chunksize=10), cooler.Cooler("/dev/shm/o3.cool").pixels()[:].values.tolist())[2])
# 9 annotate empty pixels partial bins
c = cooler.Cooler("/dev/shm/b10.cool")
tryit("annotate empty+partial", lambda: cooler.annotate(c.pixels()[0:0], c.bins()[2:4]))
tryit("annotate partial", lambda: cooler.annotate(c.pixels()[2:3], c.bins()[2:5]).values.tolist())
tryit("annotate partial many pix", lambda: cooler.annotate(pd.concat([c.pixels()[2:3]]*5), c.bins()[2:5]).values.tolist())
