import numpy as np, pandas as pd, cooler, warnings, time, pysam, os
from cooler import util
warnings.simplefilter("ignore")
cs = pd.Series({"a":30,"b":20})
bins = util.binnify(cs, 10)
rows = [("a",1,"a",25),("a",3,"a",26),("a",12,"b",4),("a",30,"b",20),("b",5,"b",20), ("a",10,"b",21), ("a",11,"a",40), ("a",31,"b",1),("a", 10, "a", 5)]
rows.sort()
def run(rows, one_based=True, zero_index=False):
    with open("pp.txt","w") as f:
        for r in rows: f.write(".\t"+"\t".join(map(str,r))+"\n")
    for p in ("pp.txt.gz","pp.txt.gz.tbi"):
        if os.path.exists(p): os.remove(p)
    pysam.tabix_compress("pp.txt","pp.txt.gz",force=True)
    pysam.tabix_index("pp.txt.gz", seq_col=1, start_col=2, end_col=2, force=True, zerobased=zero_index)
    it = cooler.create.TabixAggregator("pp.txt.gz", cs, bins, is_one_based=one_based, n_chunks=1)
    try:
        cooler.create_cooler("/dev/shm/tb.cool", bins, it, ordered=True)
        return cooler.Cooler("/dev/shm/tb.cool").pixels()[:].values.tolist()
    except Exception as e:
        return ("EXC", type(e).__name__, str(e)[:100])
for r in rows:
    print(r, "1-based:", run([r]), " 0-based:", run([r], one_based=False, zero_index=True))
