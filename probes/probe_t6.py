import numpy as np, pandas as pd, cooler, warnings
warnings.simplefilter("ignore")
rng = np.random.default_rng(0)
def build(chromlens, dens=1.0, diag=True):
    bins = cooler.util.binnify(pd.Series(chromlens), 10)
    n = len(bins)
    A = rng.integers(1, 20, size=(n,n)); A = np.triu(A) 
    i,j = np.nonzero(A)
    pix = pd.DataFrame({"bin1_id":i,"bin2_id":j,"count":A[i,j]})
    cooler.create_cooler("/dev/shm/bal.cool", bins, pix, ordered=True)
    return cooler.Cooler("/dev/shm/bal.cool"), bins
def marg_check(clr, bins, w, mode, ignore_diags):
    M = clr.matrix(balance=False)[:].astype(float)
    n = len(M)
    ch = bins["chrom"].cat.codes.values
    same = ch[:,None]==ch[None,:]
    d = np.abs(np.arange(n)[:,None]-np.arange(n)[None,:])
    M[d<ignore_diags]=0
    if mode=="cis": M[~same]=0
    if mode=="trans": M[same]=0
    ok = ~np.isnan(w)
    W = np.where(ok,w,0)
    B = W[:,None]*M*W[None,:]
    return B.sum(1)[ok]
for lens in ({"a":60,"b":60}, {"a":80,"b":40}, {"a":50,"b":40,"c":30}):
    clr,bins = build(lens)
    for mode,kw in (("gw",{}),("cis",{"cis_only":True}),("trans",{"trans_only":True})):
        for igd in (0,1,2):
            w, st = cooler.balance_cooler(clr, ignore_diags=igd, min_nnz=0, mad_max=0, tol=1e-12, max_iters=2000, **kw)
            m = marg_check(clr,bins,w,mode,igd)
            print(lens, mode, "igd",igd, "conv",np.all(st["converged"]), "marg min/max", m.min().round(6) if len(m) else None, m.max().round(6) if len(m) else None, "scale", np.round(st["scale"],4))
