import numpy as np, pandas as pd, cooler, warnings, itertools, time
warnings.simplefilter("ignore")
rng=np.random.default_rng(1)
def build(lens, A):
    bins = cooler.util.binnify(pd.Series(lens), 10)
    i,j=np.nonzero(np.triu(A)); 
    pix=pd.DataFrame({"bin1_id":i,"bin2_id":j,"count":A[i,j]})
    cooler.create_cooler("/dev/shm/b14.cool",bins,pix,ordered=True, h5opts=dict(compression=None,shuffle=False))
    return cooler.Cooler("/dev/shm/b14.cool"), bins
worst=0; nconv=0; nrun=0; viol=0
t=time.time()
for lens in ({"a":60},{"a":40,"b":20},{"a":30,"b":20,"c":30}):
  for trial in range(6):
    n=sum(lens.values())//10
    A=rng.integers(0,9,size=(n,n))*(rng.random((n,n))<rng.choice([0.5,0.8,1.0])); A=np.triu(A); A=A+np.triu(A,1).T
    clr,bins=build(lens,A)
    ch=bins["chrom"].cat.codes.values
    for cis in (False,True):
      for igd in (1,2):
        for tol in (1e-2,1e-5,1e-9):
          for resc in (True,False):
            for mi in (3,60):
                nrun+=1
                w,st=cooler.balance_cooler(clr,ignore_diags=igd,min_nnz=0,mad_max=0,tol=tol,cis_only=cis,rescale_marginals=resc,max_iters=mi)
                M=A.astype(float).copy()
                d=np.abs(np.arange(n)[:,None]-np.arange(n)[None,:]); M[d<igd]=0
                if cis: M[ch[:,None]!=ch[None,:]]=0
                ok=~np.isnan(w); W=np.where(ok,w,0)
                B=W[:,None]*M*W[None,:]; r=B.sum(1)
                scopes=[np.arange(n)] if not cis else [np.where(ch==c)[0] for c in range(len(lens))]
                scales=np.atleast_1d(st["scale"]); convs=np.atleast_1d(st["converged"])
                for k,idx in enumerate(scopes):
                    if not convs[k]: continue
                    rr=r[idx]; rr=rr[rr!=0]
                    if len(rr)==0: continue
                    nconv+=1
                    mu=scales[k]; N=len(rr); eps=np.sqrt(N*tol)/mu
                    if eps>=1: continue
                    target=1.0 if resc else mu
                    lo,hi=target/(1+eps), target/(1-eps)
                    slack=1e-9*target
                    if rr.min()<lo-slack or rr.max()>hi+slack:
                        viol+=1
                        if viol<5: print("VIOL",lens,cis,igd,tol,resc,mi,rr.min(),rr.max(),lo,hi,mu,N)
                    worst=max(worst,(max(hi-rr.min(), rr.max()-lo))/(hi-lo) if hi>lo else 0)
print("runs",nrun,"converged scopes",nconv,"violations of bound",viol,"time",time.time()-t)
